// Package c36_urlargs checks property C36: user names, host names and container
// names taken from endpoint URLs reach ssh, scp and docker as operands (or as
// the argument of the option meant to carry them), never as options.
//
// This file is the independent side: models of the argument grammars of the
// three tools (BSD getopt as bundled with OpenSSH for ssh/scp, spf13/pflag as
// used by the Docker CLI for docker exec/cp/start/stop). Nothing here calls
// into Mutagen.
package c36_urlargs

import (
	"fmt"
	"regexp"
	"strings"
)

// ---------------------------------------------------------------- getopt

// Option is one option occurrence as the tool would see it.
type Option struct {
	Name  string `json:"name"`
	Value string `json:"value,omitempty"`
	// From is the index (in the argument list, program name excluded) of the
	// element that introduced the option.
	From int `json:"from"`
}

// sshOptstring / scpOptstring are the getopt strings of OpenSSH 9.x ssh and
// scp. Only the distinction "takes an argument" matters to the model; unknown
// letters are reported as errors (the tool would print its usage text), which
// still means that the element was interpreted as an option.
const (
	sshOptstring = "1246ab:c:e:fgi:kl:m:no:p:qstvxAB:CD:E:F:GI:J:KL:MNO:P:Q:R:S:TVw:W:XYy"
	scpOptstring = "12346ABCDOpqRrsTvc:F:i:J:l:o:P:S:X:"
)

// getoptResult is the outcome of scanning an argument list the way a
// non-permuting (POSIX / BSD) getopt loop does.
type getoptResult struct {
	Options []Option
	// Next is the index of the first element that was not consumed by option
	// processing (the first operand), len(args) if there is none.
	Next int
	// Err describes an unknown option or a missing option argument.
	Err string
}

// getopt scans args (program name excluded) starting at index start.
func getopt(optstring string, args []string, start int) getoptResult {
	var r getoptResult
	i := start
	for i < len(args) {
		el := args[i]
		// A non-option: an element that does not start with '-', or "-" alone.
		if len(el) < 2 || el[0] != '-' {
			break
		}
		if el == "--" {
			i++
			break
		}
		// An option cluster.
		from := i
		rest := el[1:]
		i++
		for len(rest) > 0 {
			c := rest[0]
			rest = rest[1:]
			pos := strings.IndexByte(optstring, c)
			if c == ':' || c == '-' || pos < 0 {
				r.Options = append(r.Options, Option{Name: string(c), From: from})
				if r.Err == "" {
					r.Err = fmt.Sprintf("unknown option -%c (element %d %q)", c, from, el)
				}
				continue
			}
			takesArgument := pos+1 < len(optstring) && optstring[pos+1] == ':'
			if !takesArgument {
				r.Options = append(r.Options, Option{Name: string(c), From: from})
				continue
			}
			if len(rest) > 0 {
				r.Options = append(r.Options, Option{Name: string(c), Value: rest, From: from})
				rest = ""
			} else if i < len(args) {
				r.Options = append(r.Options, Option{Name: string(c), Value: args[i], From: from})
				i++
			} else {
				r.Options = append(r.Options, Option{Name: string(c), From: from})
				if r.Err == "" {
					r.Err = fmt.Sprintf("option -%c requires an argument (element %d %q)", c, from, el)
				}
			}
		}
	}
	r.Next = i
	return r
}

// SSHView is what ssh makes of an argument list.
type SSHView struct {
	Options []Option `json:"options"`
	// HasTarget tells whether a destination operand was found.
	HasTarget bool     `json:"has_target"`
	Target    string   `json:"target"`
	Command   []string `json:"command"`
	Err       string   `json:"err,omitempty"`
}

// parseSSH models ssh's main(): options, destination, options again (ssh
// resumes option parsing after the destination), then the command words.
func parseSSH(args []string) SSHView {
	var v SSHView
	first := getopt(sshOptstring, args, 0)
	v.Options, v.Err = first.Options, first.Err
	if first.Next >= len(args) {
		return v
	}
	v.HasTarget, v.Target = true, args[first.Next]
	second := getopt(sshOptstring, args, first.Next+1)
	v.Options = append(v.Options, second.Options...)
	if v.Err == "" {
		v.Err = second.Err
	}
	v.Command = append([]string{}, args[second.Next:]...)
	return v
}

// SCPView is what scp makes of an argument list.
type SCPView struct {
	Options  []Option `json:"options"`
	Operands []string `json:"operands"`
	Err      string   `json:"err,omitempty"`
}

func parseSCP(args []string) SCPView {
	r := getopt(scpOptstring, args, 0)
	return SCPView{Options: r.Options, Operands: append([]string{}, args[r.Next:]...), Err: r.Err}
}

// ----------------------------------------------------------------- pflag

type flagDef struct {
	long  string
	short byte // 0 if none
	// boolean flags have a no-option default value and never consume the next
	// element.
	boolean bool
}

type flagSet struct {
	defs         []flagDef
	interspersed bool
}

func (s *flagSet) byLong(name string) *flagDef {
	for i := range s.defs {
		if s.defs[i].long == name {
			return &s.defs[i]
		}
	}
	return nil
}

func (s *flagSet) byShort(c byte) *flagDef {
	for i := range s.defs {
		if s.defs[i].short != 0 && s.defs[i].short == c {
			return &s.defs[i]
		}
	}
	return nil
}

// Flag tables of the Docker CLI (docker 20.10 – 28): top level, exec, cp,
// start, stop. exec disables interspersed parsing.
var (
	dockerRootFlags = &flagSet{interspersed: false, defs: []flagDef{
		{long: "config"}, {long: "context", short: 'c'}, {long: "debug", short: 'D', boolean: true},
		{long: "host", short: 'H'}, {long: "log-level", short: 'l'}, {long: "tls", boolean: true},
		{long: "tlscacert"}, {long: "tlscert"}, {long: "tlskey"}, {long: "tlsverify", boolean: true},
		{long: "version", short: 'v', boolean: true}, {long: "help", short: 'h', boolean: true},
	}}
	dockerSubcommandFlags = map[string]*flagSet{
		"exec": {interspersed: false, defs: []flagDef{
			{long: "detach", short: 'd', boolean: true}, {long: "detach-keys"}, {long: "env", short: 'e'},
			{long: "env-file"}, {long: "interactive", short: 'i', boolean: true}, {long: "privileged", boolean: true},
			{long: "tty", short: 't', boolean: true}, {long: "user", short: 'u'}, {long: "workdir", short: 'w'},
			{long: "help", boolean: true},
		}},
		"cp": {interspersed: true, defs: []flagDef{
			{long: "archive", short: 'a', boolean: true}, {long: "follow-link", short: 'L', boolean: true},
			{long: "quiet", short: 'q', boolean: true}, {long: "help", boolean: true},
		}},
		"start": {interspersed: true, defs: []flagDef{
			{long: "attach", short: 'a', boolean: true}, {long: "detach-keys"}, {long: "interactive", short: 'i', boolean: true},
			{long: "checkpoint"}, {long: "checkpoint-dir"}, {long: "help", boolean: true},
		}},
		"stop": {interspersed: true, defs: []flagDef{
			{long: "signal", short: 's'}, {long: "time", short: 't'}, {long: "timeout"}, {long: "help", boolean: true},
		}},
	}
)

type pflagResult struct {
	Flags []Option
	Args  []string
	Err   string
}

// parsePflag mirrors (*pflag.FlagSet).parseArgs.
func parsePflag(set *flagSet, args []string, base int) pflagResult {
	var r pflagResult
	fail := func(format string, a ...any) {
		if r.Err == "" {
			r.Err = fmt.Sprintf(format, a...)
		}
	}
	i := 0
	for i < len(args) {
		s := args[i]
		from := base + i
		i++
		if len(s) == 0 || s[0] != '-' || len(s) == 1 {
			if !set.interspersed {
				r.Args = append(r.Args, s)
				r.Args = append(r.Args, args[i:]...)
				return r
			}
			r.Args = append(r.Args, s)
			continue
		}
		if s[1] == '-' {
			if len(s) == 2 {
				r.Args = append(r.Args, args[i:]...)
				return r
			}
			name := s[2:]
			if name[0] == '-' || name[0] == '=' {
				r.Flags = append(r.Flags, Option{Name: name, From: from})
				fail("bad flag syntax: %s (element %d)", s, from)
				return r
			}
			value, hasValue := "", false
			if eq := strings.IndexByte(name, '='); eq >= 0 {
				name, value, hasValue = name[:eq], name[eq+1:], true
			}
			def := set.byLong(name)
			if def == nil {
				r.Flags = append(r.Flags, Option{Name: name, Value: value, From: from})
				fail("unknown flag: --%s (element %d)", name, from)
				return r
			}
			switch {
			case hasValue:
			case def.boolean:
				value = "true"
			case i < len(args):
				value = args[i]
				i++
			default:
				fail("flag needs an argument: --%s (element %d)", name, from)
			}
			r.Flags = append(r.Flags, Option{Name: def.long, Value: value, From: from})
			if r.Err != "" {
				return r
			}
			continue
		}
		// Shorthand cluster.
		shorthands := s[1:]
		for len(shorthands) > 0 {
			c := shorthands[0]
			def := set.byShort(c)
			if def == nil {
				r.Flags = append(r.Flags, Option{Name: string(c), From: from})
				fail("unknown shorthand flag: %q in %s (element %d)", string(c), s, from)
				return r
			}
			var value string
			switch {
			case len(shorthands) > 2 && shorthands[1] == '=':
				value, shorthands = shorthands[2:], ""
			case def.boolean:
				value, shorthands = "true", shorthands[1:]
			case len(shorthands) > 1:
				value, shorthands = shorthands[1:], ""
			case i < len(args):
				value, shorthands = args[i], ""
				i++
			default:
				fail("flag needs an argument: %q in %s (element %d)", string(c), s, from)
				shorthands = ""
			}
			r.Flags = append(r.Flags, Option{Name: def.long, Value: value, From: from})
			if r.Err != "" {
				return r
			}
		}
	}
	return r
}

// DockerView is what the Docker CLI makes of an argument list.
type DockerView struct {
	RootFlags  []Option `json:"root_flags"`
	Subcommand string   `json:"subcommand"`
	Flags      []Option `json:"flags"`
	Args       []string `json:"args"`
	Err        string   `json:"err,omitempty"`
}

func parseDocker(args []string) DockerView {
	var v DockerView
	root := parsePflag(dockerRootFlags, args, 0)
	v.RootFlags, v.Err = root.Flags, root.Err
	if v.Err != "" {
		return v
	}
	if len(root.Args) == 0 {
		v.Err = "no subcommand"
		return v
	}
	v.Subcommand = root.Args[0]
	set, ok := dockerSubcommandFlags[v.Subcommand]
	if !ok {
		v.Err = fmt.Sprintf("subcommand %q is not one the transport is meant to run", v.Subcommand)
		return v
	}
	base := len(args) - len(root.Args) + 1
	sub := parsePflag(set, root.Args[1:], base)
	v.Flags, v.Args, v.Err = sub.Flags, sub.Args, sub.Err
	return v
}

// ------------------------------------------------------- expectations

// Intent is what the endpoint URL means, independent of how the transport
// spells it on a command line.
type Intent struct {
	Protocol   string            // "ssh" or "docker"
	User       string            // URL user ("" = not specified)
	Host       string            // URL host / container
	Port       uint32            // URL port (ssh only)
	Parameters map[string]string // docker daemon connection parameters
	// Commands is the set of remote commands the scenario may legitimately run
	// (space-joined words).
	Commands map[string]bool
	// CopySource and CopyName are the local file and remote name handed to Copy.
	CopySource, CopyName string
	// Home is the container home directory the fake docker reports.
	Home string
	// Windows tells that the fake docker plays a Windows container.
	Windows bool
}

// target is the destination operand ssh must see.
func (in *Intent) target() string {
	if in.User != "" {
		return in.User + "@" + in.Host
	}
	return in.Host
}

// unbracketedTarget is the one respelling of the destination that is still
// "the host passed as an operand": ssh (unlike scp) does not take IPv6
// literals in brackets, so a transport may strip one surrounding pair.
func (in *Intent) unbracketedTarget() string {
	host := in.Host
	if len(host) > 2 && host[0] == '[' && host[len(host)-1] == ']' {
		host = host[1 : len(host)-1]
	}
	if in.User != "" {
		return in.User + "@" + host
	}
	return host
}

// agentCommand is the shape of the agent invocation the dialer composes (its
// text is not URL-derived; the version-specific path is not pinned here).
var agentCommand = regexp.MustCompile(`^[^ -][^ ]*[/\\]mutagen-agent[^ /\\]* (synchronizer|forwarder) --log-level=[a-z]+$`)

// allowed tells whether command (space-joined words) is one the scenario runs.
func (in *Intent) allowed(command string) bool {
	return in.Commands[command] || agentCommand.MatchString(command)
}

func optionLetters(options []Option) string {
	var b strings.Builder
	for _, o := range options {
		b.WriteString(o.Name)
	}
	return b.String()
}

func isDecimal(s string) bool {
	if s == "" {
		return false
	}
	for _, c := range s {
		if c < '0' || c > '9' {
			return false
		}
	}
	return true
}

// checkOpenSSHOptions verifies that the options seen by ssh/scp are exactly the
// fixed ones the transport is documented to pass plus the port option.
func checkOpenSSHOptions(options []Option, wantLetters string, portLetter string, port uint32) string {
	if got := optionLetters(options); got != wantLetters {
		return fmt.Sprintf("the tool sees options %q, intended %q (%+v)", got, wantLetters, options)
	}
	keys := []string{"ConnectTimeout=", "ServerAliveInterval=", "ServerAliveCountMax="}
	k := 0
	for _, o := range options {
		switch o.Name {
		case "o":
			if k >= len(keys) || !strings.HasPrefix(o.Value, keys[k]) || !isDecimal(o.Value[len(keys[k]):]) {
				return fmt.Sprintf("unexpected -o argument %q", o.Value)
			}
			k++
		case portLetter:
			if o.Value != fmt.Sprint(port) {
				return fmt.Sprintf("-%s carries %q, intended port %d", portLetter, o.Value, port)
			}
		}
	}
	return ""
}

// JudgeSSH judges one recorded ssh invocation.
func JudgeSSH(in *Intent, args []string) string {
	v := parseSSH(args)
	if v.Err != "" {
		return "ssh: " + v.Err
	}
	want := "ooo"
	if in.Port != 0 {
		want += "p"
	}
	if msg := checkOpenSSHOptions(v.Options, want, "p", in.Port); msg != "" {
		return "ssh: " + msg
	}
	if !v.HasTarget {
		return "ssh: no destination operand"
	}
	if v.Target != in.target() && v.Target != in.unbracketedTarget() {
		return fmt.Sprintf("ssh: destination operand is %q, intended %q", v.Target, in.target())
	}
	if len(v.Command) != 1 || !in.allowed(v.Command[0]) {
		return fmt.Sprintf("ssh: remote command is %q, intended one of the scenario's commands", v.Command)
	}
	return ""
}

// JudgeSCP judges one recorded scp invocation.
func JudgeSCP(in *Intent, args []string, sourceBase string) string {
	v := parseSCP(args)
	if v.Err != "" {
		return "scp: " + v.Err
	}
	want := "Cooo"
	if in.Port != 0 {
		want += "P"
	}
	if msg := checkOpenSSHOptions(v.Options, want, "P", in.Port); msg != "" {
		return "scp: " + msg
	}
	destination := in.target() + ":" + in.CopyName
	if len(v.Operands) != 2 || v.Operands[0] != sourceBase || v.Operands[1] != destination {
		return fmt.Sprintf("scp: operands are %q, intended [%q %q]", v.Operands, sourceBase, destination)
	}
	return ""
}

// rootFlagOfParameter maps URL parameter names to Docker top-level flags.
var dockerParameterNames = []string{"config", "host", "context", "tls", "tlscacert", "tlscert", "tlskey", "tlsverify"}

// JudgeDocker judges one recorded docker invocation.
func JudgeDocker(in *Intent, args []string) string {
	v := parseDocker(args)
	if v.Err != "" {
		return "docker: " + v.Err
	}
	// Top-level flags must be exactly the URL parameters.
	seen := map[string]string{}
	for _, f := range v.RootFlags {
		if _, dup := seen[f.Name]; dup {
			return fmt.Sprintf("docker: top-level flag --%s given twice", f.Name)
		}
		seen[f.Name] = f.Value
	}
	for _, name := range dockerParameterNames {
		want, present := in.Parameters[name]
		got, given := seen[name]
		if name == "tls" || name == "tlsverify" {
			if present != given {
				return fmt.Sprintf("docker: --%s present=%v, URL parameter present=%v", name, given, present)
			}
		} else if present != given || got != want {
			return fmt.Sprintf("docker: --%s is %q (given=%v), URL parameter is %q (present=%v)", name, got, given, want, present)
		}
		delete(seen, name)
	}
	if len(seen) != 0 {
		return fmt.Sprintf("docker: unintended top-level flags %v", seen)
	}
	flags := map[string]string{}
	for _, f := range v.Flags {
		if _, dup := flags[f.Name]; dup {
			return fmt.Sprintf("docker %s: flag --%s given twice", v.Subcommand, f.Name)
		}
		flags[f.Name] = f.Value
	}
	switch v.Subcommand {
	case "exec":
		if flags["interactive"] != "true" {
			return "docker exec: --interactive not seen"
		}
		delete(flags, "interactive")
		if len(v.Args) < 2 {
			return fmt.Sprintf("docker exec: positional arguments %q lack a container or a command", v.Args)
		}
		if v.Args[0] != in.Host {
			return fmt.Sprintf("docker exec: container operand is %q, intended %q", v.Args[0], in.Host)
		}
		command := strings.Join(v.Args[1:], " ")
		chown := strings.HasPrefix(command, "chown ") && strings.HasSuffix(command, " "+in.CopyName)
		if !in.allowed(command) && !chown {
			return fmt.Sprintf("docker exec: command words are %q, intended one of the scenario's commands", v.Args[1:])
		}
		user, userGiven := flags["user"]
		delete(flags, "user")
		switch {
		case chown:
			if !userGiven || user != "root" {
				return fmt.Sprintf("docker exec: ownership command runs as %q (given=%v), intended root", user, userGiven)
			}
		case in.User == "":
			if userGiven {
				return fmt.Sprintf("docker exec: --user %q although the URL names no user", user)
			}
		default:
			if !userGiven || user != in.User {
				return fmt.Sprintf("docker exec: --user is %q (given=%v), intended %q", user, userGiven, in.User)
			}
		}
		if dir, given := flags["workdir"]; given && dir != in.Home {
			return fmt.Sprintf("docker exec: --workdir is %q, intended %q", dir, in.Home)
		}
		delete(flags, "workdir")
		if len(flags) != 0 {
			return fmt.Sprintf("docker exec: unintended flags %v", flags)
		}
	case "cp":
		if len(flags) != 0 {
			return fmt.Sprintf("docker cp: unintended flags %v", flags)
		}
		separator := "/"
		if in.Windows {
			separator = "\\"
		}
		destination := in.Host + ":" + in.Home + separator + in.CopyName
		if len(v.Args) != 2 || v.Args[0] != in.CopySource || v.Args[1] != destination {
			return fmt.Sprintf("docker cp: operands are %q, intended [%q %q]", v.Args, in.CopySource, destination)
		}
	case "start", "stop":
		if len(flags) != 0 {
			return fmt.Sprintf("docker %s: unintended flags %v", v.Subcommand, flags)
		}
		if len(v.Args) != 1 || v.Args[0] != in.Host {
			return fmt.Sprintf("docker %s: operands are %q, intended [%q]", v.Subcommand, v.Args, in.Host)
		}
	}
	return ""
}

// ClassLeadingDash is the classifier of the suspected finding: the argument
// list element that the transport places in operand position starts with '-'
// in a way the tool's parser reads as an option. For ssh that element is the
// destination ([user@]host) and a lone "-" is still an operand; for docker the
// container name also starts the "container:path" operand of docker cp, so
// every container name with a leading '-' belongs to the class.
const ClassLeadingDash = "operand-component-starts-with-dash"

// knownClassOf classifies an endpoint (model only).
func knownClassOf(protocol, user, host string) string {
	switch protocol {
	case "ssh":
		operand := host
		if user != "" {
			operand = user + "@" + host
		}
		if len(operand) > 1 && operand[0] == '-' {
			return ClassLeadingDash
		}
	case "docker":
		if strings.HasPrefix(host, "-") {
			return ClassLeadingDash
		}
	}
	return ""
}
