package c36_urlargs

import (
	"bytes"
	"errors"
	"fmt"
	"io"
	"os"
	"path/filepath"
	"strconv"
	"strings"

	"github.com/mutagen-io/mutagen/pkg/agent"
	dockertransport "github.com/mutagen-io/mutagen/pkg/agent/transport/docker"
	sshtransport "github.com/mutagen-io/mutagen/pkg/agent/transport/ssh"
	"github.com/mutagen-io/mutagen/pkg/logging"
	"github.com/mutagen-io/mutagen/pkg/prompting"
	urlpkg "github.com/mutagen-io/mutagen/pkg/url"
)

// fakeScript is installed as ssh, scp and docker. It appends one record
// (argument count, program name, arguments; every field NUL-terminated) to
// $VERIF_C36_LOG and then plays just enough of a remote for the transports and
// the agent dialer to keep going. What it answers depends only on the LAST
// arguments (the remote command words), never on option parsing.
const fakeScript = `#!/bin/sh
printf '%s\0' "$#" "${0##*/}" "$@" >> "$VERIF_C36_LOG"
last=; prev=
for a in "$@"; do prev=$last; last=$a; done
case "$prev $last" in
  *" env")
    if [ "$VERIF_C36_WINDOWS" = 1 ]; then echo "exec failed" >&2; exit 126; fi
    printf 'PATH=/bin\nHOME=%s\n' "$VERIF_C36_HOME"; exit 0;;
  "/c set")
    if [ "$VERIF_C36_WINDOWS" != 1 ]; then echo "cmd: not found" >&2; exit 127; fi
    printf 'OS=Windows_NT\r\nPROCESSOR_ARCHITECTURE=AMD64\r\nUSERPROFILE=%s\r\n' "$VERIF_C36_HOME"; exit 0;;
  "id -un") printf '%s\n' "$VERIF_C36_USER"; exit 0;;
  "id -gn") echo grp; exit 0;;
  "-s -m") echo "Linux x86_64"; exit 0;;
esac
case "$last" in
  "uname -s -m") echo "Linux x86_64"; exit 0;;
  *--log-level=*) echo "agent: command not found" >&2; exit 127;;
esac
exit 0
`

// fakeDir holds the fake executables; logPath is the record file.
var fakeDir, logPath, copySource string

// setupFakes installs the fake executables and points the transports at them.
func setupFakes() (cleanup func(), err error) {
	dir, err := os.MkdirTemp("", "c36_urlargs-fakes-")
	if err != nil {
		return nil, err
	}
	for _, name := range []string{"ssh", "scp", "docker"} {
		if err := os.WriteFile(filepath.Join(dir, name), []byte(fakeScript), 0o755); err != nil {
			os.RemoveAll(dir)
			return nil, err
		}
	}
	fakeDir = dir
	logPath = filepath.Join(dir, "argv.log")
	copySource = filepath.Join(dir, "agent-binary")
	if err := os.WriteFile(copySource, []byte("x"), 0o644); err != nil {
		os.RemoveAll(dir)
		return nil, err
	}
	os.Setenv("MUTAGEN_SSH_PATH", dir)
	os.Setenv("MUTAGEN_DOCKER_PATH", dir)
	os.Setenv("VERIF_C36_LOG", logPath)
	return func() { os.RemoveAll(dir) }, nil
}

// Record is one invocation of a fake.
type Record struct {
	Program string   `json:"program"`
	Args    []string `json:"args"`
}

func readRecords() ([]Record, error) {
	data, err := os.ReadFile(logPath)
	if err != nil {
		if os.IsNotExist(err) {
			return nil, nil
		}
		return nil, err
	}
	var fields []string
	for len(data) > 0 {
		i := bytes.IndexByte(data, 0)
		if i < 0 {
			return nil, errors.New("unterminated field in record file")
		}
		fields = append(fields, string(data[:i]))
		data = data[i+1:]
	}
	var out []Record
	for len(fields) > 0 {
		n, err := strconv.Atoi(fields[0])
		if err != nil || len(fields) < 2+n {
			return nil, fmt.Errorf("malformed record header %q", fields[0])
		}
		out = append(out, Record{Program: fields[1], Args: fields[2 : 2+n]})
		fields = fields[2+n:]
	}
	return out, nil
}

// Case is one endpoint and what is done with it.
type Case struct {
	// Route "raw": Raw is parsed with url.Parse(Raw, kind, First). Route
	// "struct": the URL message is given directly (what an API client sends).
	Route      string `json:"route"`
	Raw        []byte `json:"raw,omitempty"`
	Forwarding bool   `json:"forwarding"`
	First      bool   `json:"first"`

	Protocol   string            `json:"protocol,omitempty"` // struct route: "ssh" | "docker"
	User       []byte            `json:"user,omitempty"`
	Host       []byte            `json:"host,omitempty"`
	Port       uint32            `json:"port,omitempty"`
	Path       string            `json:"path,omitempty"`
	Parameters map[string]string `json:"parameters,omitempty"`

	// Ops are executed in order on one transport: "command", "copy", "dial".
	Ops []string `json:"ops"`
	// Windows makes the fake docker play a Windows container.
	Windows bool `json:"windows"`

	RawText string `json:"raw_text,omitempty"`
}

func (c *Case) withText() *Case {
	d := *c
	if d.Route == "raw" {
		d.RawText = strconv.Quote(string(d.Raw))
	} else {
		d.RawText = fmt.Sprintf("%s user=%q host=%q port=%d", d.Protocol, d.User, d.Host, d.Port)
	}
	return &d
}

// Verdict is the outcome of judging a case.
type Verdict struct {
	Violation  string
	NonTrivial bool
	Classes    []string
	Records    []Record
}

const (
	fakeHome       = "/home/verif"
	fakeHomeWin    = "C:\\Users\\verif"
	copyRemoteName = ".mutagen-agent-c36"
	plainCommand   = "verif-probe --flag value"
)

type yesPrompter struct{}

func (yesPrompter) Message(string) error          { return nil }
func (yesPrompter) Prompt(string) (string, error) { return "yes", nil }

// buildURL produces the URL the way the named route does, or the reason it was
// rejected.
func buildURL(c *Case) (*urlpkg.URL, string) {
	kind := urlpkg.Kind_Synchronization
	if c.Forwarding {
		kind = urlpkg.Kind_Forwarding
	}
	var u *urlpkg.URL
	if c.Route == "raw" {
		parsed, err := urlpkg.Parse(string(c.Raw), kind, c.First)
		if err != nil {
			return nil, "parse"
		}
		u = parsed
	} else {
		u = &urlpkg.URL{Kind: kind, User: string(c.User), Host: string(c.Host), Port: c.Port, Path: c.Path, Parameters: c.Parameters}
		switch c.Protocol {
		case "ssh":
			u.Protocol = urlpkg.Protocol_SSH
		case "docker":
			u.Protocol = urlpkg.Protocol_Docker
		default:
			return nil, "protocol"
		}
	}
	if err := u.EnsureValid(); err != nil {
		return nil, "validation"
	}
	return u, ""
}

// judge runs the case against the real transports with the fakes installed and
// judges every recorded invocation with the grammar models.
func judge(c *Case) Verdict {
	var v Verdict
	class := func(s string) { v.Classes = append(v.Classes, s) }

	u, rejected := buildURL(c)
	if u == nil {
		class("rejected/" + rejected)
		return v
	}
	in := &Intent{User: u.User, Host: u.Host, Port: u.Port, Parameters: u.Parameters,
		CopySource: copySource, CopyName: copyRemoteName, Home: fakeHome, Windows: c.Windows,
		Commands: map[string]bool{plainCommand: true, "uname -s -m": true, "cmd.exe /c set": true,
			"env": true, "cmd /c set": true, "id -un": true, "id -gn": true}}
	if c.Windows {
		in.Home = fakeHomeWin
	}
	switch u.Protocol {
	case urlpkg.Protocol_SSH:
		in.Protocol = "ssh"
	case urlpkg.Protocol_Docker:
		in.Protocol = "docker"
	default:
		class("local")
		return v
	}
	class("protocol/" + in.Protocol)

	// What the fakes answer.
	os.Remove(logPath)
	os.Setenv("VERIF_C36_HOME", in.Home)
	os.Setenv("VERIF_C36_WINDOWS", map[bool]string{false: "0", true: "1"}[c.Windows])
	fakeUser := u.User
	if fakeUser == "" {
		fakeUser = "root"
	}
	os.Setenv("VERIF_C36_USER", fakeUser)

	// A prompter is only needed for the Windows-container copy confirmation.
	prompter := ""
	if in.Protocol == "docker" && c.Windows {
		id, err := prompting.RegisterPrompter(yesPrompter{})
		if err != nil {
			v.Violation = "harness: cannot register prompter: " + err.Error()
			return v
		}
		defer prompting.UnregisterPrompter(id)
		prompter = id
	}

	// The transport, exactly as the protocol handlers construct it.
	var transport agent.Transport
	var err error
	if in.Protocol == "ssh" {
		transport, err = sshtransport.NewTransport(u.User, u.Host, uint16(u.Port), prompter)
	} else {
		transport, err = dockertransport.NewTransport(u.Host, u.User, u.Environment, u.Parameters, prompter)
	}
	if err != nil {
		class("rejected/transport")
		return v
	}

	logger := logging.NewLogger(logging.LevelDisabled, io.Discard)
	mode := agent.CommandSynchronizer
	if c.Forwarding {
		mode = agent.CommandForwarder
	}
	for _, op := range c.Ops {
		switch op {
		case "command":
			if cmd, err := transport.Command(plainCommand); err == nil {
				cmd.Run()
			}
		case "copy":
			transport.Copy(copySource, copyRemoteName)
		case "dial":
			if stream, err := agent.Dial(logger, transport, mode, prompter); err == nil {
				stream.Close()
			}
		}
	}

	records, err := readRecords()
	if err != nil {
		v.Violation = "harness: " + err.Error()
		return v
	}
	v.Records = records
	if len(records) == 0 {
		class("nothing-executed")
		return v
	}
	dash := func(s string) bool { return strings.HasPrefix(s, "-") }
	if dash(u.User) || dash(u.Host) {
		v.NonTrivial = true
		class("executed-with-leading-dash-component")
	}
	if dash(u.User) {
		class("dash/user")
	}
	if dash(u.Host) {
		class("dash/host")
	}
	if knownClassOf(in.Protocol, u.User, u.Host) != "" {
		class("dash/in-operand-position")
	}
	for i, r := range records {
		class("invocation/" + r.Program)
		var msg string
		switch r.Program {
		case "ssh":
			msg = JudgeSSH(in, r.Args)
		case "scp":
			msg = JudgeSCP(in, r.Args, filepath.Base(copySource))
		case "docker":
			msg = JudgeDocker(in, r.Args)
		default:
			msg = "unknown program " + r.Program
		}
		if in.Protocol == "ssh" && r.Program == "docker" || in.Protocol == "docker" && r.Program != "docker" {
			msg = fmt.Sprintf("%s endpoint ran %s", in.Protocol, r.Program)
		}
		if msg != "" {
			v.Violation = fmt.Sprintf("invocation %d of %d, argv %q: %s", i+1, len(records), append([]string{r.Program}, r.Args...), msg)
			return v
		}
	}
	return v
}
