package c36_urlargs

import (
	"fmt"
	"os"
	"strings"
	"testing"

	"pgregory.net/rapid"

	"verif/kit/ev"
)

const prop = "C36"

const rule = "non-trivial: the URL is accepted, at least one fake ssh/scp/docker was executed and the URL's user or host/container starts with '-'"

func TestMain(m *testing.M) {
	cleanup, err := setupFakes()
	if err != nil {
		fmt.Fprintln(os.Stderr, "cannot install fake executables:", err)
		os.Exit(2)
	}
	code := m.Run()
	cleanup()
	os.Exit(code)
}

func listedKnown() (ev.Finding, bool) { return ev.KnownClass(prop, ClassLeadingDash) }

// classOf pre-classifies a case without running anything (URL parsing is only
// used to find the components; the class itself is a predicate on them).
func classOf(c *Case) string {
	u, _ := buildURL(c)
	if u == nil {
		return ""
	}
	protocol := strings.ToLower(u.Protocol.String())
	return knownClassOf(protocol, u.User, u.Host)
}

// ---------------------------------------------------------------- generator

var (
	optionLike = []string{"-", "--", "-l", "-p", "-v", "-4", "-oProxyCommand=x", "-o", "-E", "-F", "-i", "-J", "-W",
		"--user", "--user=root", "--privileged", "--help", "-u", "-w", "-it", "-d", "-a", "-L", "-q", "-H", "-c", "--host", "--tls", "-x", "-@", "---", "-=", "--=x", "-o=x"}
	plainUsers      = []string{"user", "root", "u-ser", "a.b_c", "0", "Ünï", "us er", "a=b", "u-", "x--y"}
	plainHosts      = []string{"host", "example.com", "h-ost", "192.168.0.1", "[::1]", "c_1", "a b", "a=b", "h-", "x--y", "0", "env", "exec", "set"}
	syncPaths       = []string{"/srv/x", "~/x", "rel", "/", "~"}
	endpoints       = []string{"tcp:localhost:8080", "unix:/run/s.sock", "tcp::80"}
	ports           = []string{"", "", "22", "2222", "0", "65535", "-1", "65536"}
	parameterValues = []string{"tcp://h:1", "ctx", "/cfg", "-x", "--", "--tls", "-H", "=x"}
	opSets          = [][]string{{"command"}, {"copy"}, {"dial"}, {"command", "copy"}, {"copy", "command"}, {"dial", "copy"}, {"command", "copy", "dial"}}
)

func pick(rt *rapid.T, label string, from []string) string {
	return rapid.SampledFrom(from).Draw(rt, label)
}

// component draws a URL component: empty, plain, option-like, or an
// option-like prefix glued to further text.
func component(rt *rapid.T, label string, plain []string, allowEmpty bool) string {
	switch rapid.IntRange(0, 11).Draw(rt, label+".class") {
	case 10, 11:
		// Option-like text behind decoration that a transport might strip or
		// decode before composing the command line (IPv6 brackets, quotes,
		// white space, percent-encoding, a trailing dot).
		inner := pick(rt, label+".option", optionLike)
		if rapid.IntRange(0, 3).Draw(rt, label+".glued") == 0 {
			inner += pick(rt, label+".tail", []string{"x", "=x", "host", "::1"})
		}
		w := rapid.SampledFrom([][2]string{{"[", "]"}, {"[", "]"}, {" ", ""}, {"\t", ""}, {"\"", "\""}, {"'", "'"}, {"", "."}, {"<", ">"}, {"{", "}"}, {"(", ")"}, {"\\", ""}, {"%2D", ""}, {"[", ""}, {"[[", "]]"}}).Draw(rt, label+".wrap")
		if w[0] == "%2D" {
			return "%2D" + inner[1:]
		}
		return w[0] + inner + w[1]
	case 0:
		if allowEmpty {
			return ""
		}
		return pick(rt, label+".plain", plain)
	case 1, 2, 3:
		return pick(rt, label+".plain", plain)
	case 4, 5, 6:
		return pick(rt, label+".option", optionLike)
	case 7:
		return pick(rt, label+".option", optionLike) + pick(rt, label+".tail", []string{"x", "=x", " x", "host", "@", ".", "-"})
	case 8:
		n := rapid.IntRange(1, 4).Draw(rt, label+".n")
		var b strings.Builder
		for i := 0; i < n; i++ {
			b.WriteString(pick(rt, label+".tok", []string{"-", "-", "o", "p", "l", "=", " ", "x", "u", "w", "i", ".", "_", "0"}))
		}
		return b.String()
	default:
		return pick(rt, label+".plain", plain) + pick(rt, label+".mid", []string{"-", " -", "--", " --user"}) + "x"
	}
}

func genCase(rt *rapid.T) *Case {
	c := &Case{}
	c.Forwarding = rapid.IntRange(0, 3).Draw(rt, "forwarding") == 0
	c.First = rapid.Bool().Draw(rt, "first")
	c.Ops = rapid.SampledFrom(opSets).Draw(rt, "ops")
	protocol := pick(rt, "protocol", []string{"ssh", "docker"})
	if protocol == "docker" {
		c.Windows = rapid.IntRange(0, 3).Draw(rt, "windows") == 0
	}
	user := ""
	if rapid.IntRange(0, 2).Draw(rt, "user.given") != 0 {
		user = component(rt, "user", plainUsers, true)
	}
	host := component(rt, "host", plainHosts, false)
	tail := pick(rt, "path", syncPaths)
	if c.Forwarding {
		tail = pick(rt, "endpoint", endpoints)
	}
	if rapid.IntRange(0, 2).Draw(rt, "route") != 0 {
		c.Route = "raw"
		var raw string
		if protocol == "ssh" {
			if user != "" {
				raw = user + "@"
			}
			raw += host + ":"
			if port := pick(rt, "port", ports); port != "" {
				raw += port + ":"
			}
			raw += tail
		} else {
			raw = pick(rt, "prefix", []string{"docker://", "docker://", "DOCKER://"})
			if user != "" {
				raw += user + "@"
			}
			raw += host
			switch {
			case c.Forwarding:
				raw += ":" + tail
			case strings.HasPrefix(tail, "/"):
				raw += tail
			default:
				raw += "/" + tail
			}
		}
		c.Raw = []byte(raw)
		return c
	}
	c.Route = "struct"
	c.Protocol = protocol
	c.User, c.Host = []byte(user), []byte(host)
	c.Path = tail
	if protocol == "docker" && !c.Forwarding && !strings.HasPrefix(tail, "/") && !strings.HasPrefix(tail, "~") {
		c.Path = "/" + tail
	}
	if protocol == "ssh" {
		c.Port = rapid.SampledFrom([]uint32{0, 0, 22, 2222, 65535, 65536}).Draw(rt, "port")
	} else if rapid.IntRange(0, 2).Draw(rt, "withParameters") == 0 {
		c.Parameters = map[string]string{}
		n := rapid.IntRange(1, 3).Draw(rt, "parameters.n")
		for i := 0; i < n; i++ {
			name := pick(rt, "parameter.name", dockerParameterNames)
			if name == "tls" || name == "tlsverify" {
				c.Parameters[name] = ""
			} else {
				c.Parameters[name] = pick(rt, "parameter.value", parameterValues)
			}
		}
	}
	return c
}

// ------------------------------------------------------------------- tests

func record(rec *ev.Recorder, c *Case, v Verdict) {
	rec.Class("route/" + c.Route)
	if c.Forwarding {
		rec.Class("kind/forwarding")
	} else {
		rec.Class("kind/synchronization")
	}
	for _, cl := range v.Classes {
		rec.Class(cl)
	}
	if len(v.Records) > 0 {
		for _, op := range c.Ops {
			rec.Class("op/" + op)
		}
		if c.Windows {
			rec.Class("docker/windows-container")
		}
	}
	if v.NonTrivial {
		rec.Class("nontrivial")
		rec.NonTrivial(ev.Hash(c.Route, string(c.Raw), c.Protocol, string(c.User), string(c.Host), fmt.Sprint(c.Port, c.Forwarding, c.Windows, c.Ops, c.Parameters)))
		if rec.WantSample() {
			rec.Sample(map[string]any{"case": c.withText(), "invocations": v.Records})
		}
	}
}

func TestRandomURLs(t *testing.T) {
	if ev.ReplayPath() != "" {
		t.Skip("replaying")
	}
	rec := ev.New(t, prop, "urls-random", "rapid: SSH and Docker endpoints, both kinds, through url.Parse (raw strings) or as URL messages (API route), whose user / host / container are empty, plain, option-like (-l, -oProxyCommand=x, --user, --, -, ...), option-like behind brackets / quotes / white space / percent-encoding, or contain dashes, spaces and '='; Docker daemon parameters with option-like values; each accepted URL drives the real transport (Command+Run, Copy, agent.Dial; POSIX or Windows container) against recording fake ssh/scp/docker; "+rule)
	_, listed := listedKnown()
	ev.Check(t, rec, 800, 5000, func(rt *rapid.T) {
		c := genCase(rt)
		if listed && classOf(c) == ClassLeadingDash {
			rec.Excluded(ClassLeadingDash)
			return
		}
		v := judge(c)
		rec.Eval()
		if v.Violation != "" {
			ev.Failf(rt, rec, c.withText(), "%s", v.Violation)
		}
		record(rec, c, v)
	})
}

// TestComponentProduct runs every (user, host) pair of a small component set
// for both protocols through both routes.
func TestComponentProduct(t *testing.T) {
	if ev.ReplayPath() != "" {
		t.Skip("replaying")
	}
	users := []string{"", "u", "-l", "-oProxyCommand=x", "--user", "-", "--", "a-b"}
	hosts := []string{"h", "-h", "-oProxyCommand=x", "--privileged", "-", "--", "a-b", "-it"}
	rec := ev.New(t, prop, "component-product", "every (user, host/container) pair of a fixed component set x {ssh, docker} x {raw string, URL message}, ops command+copy (dial in the thorough tier); "+rule)
	rec.SetExhaustive(fmt.Sprintf("users %q x hosts %q x protocols {ssh, docker} x routes {raw, struct}; synchronization URLs; POSIX container", users, hosts))
	_, listed := listedKnown()
	ops := []string{"command", "copy"}
	if ev.Thorough() {
		ops = []string{"command", "copy", "dial"}
	}
	for _, protocol := range []string{"ssh", "docker"} {
		for _, route := range []string{"raw", "struct"} {
			for _, user := range users {
				for _, host := range hosts {
					c := &Case{Route: route, First: true, Ops: ops}
					if route == "raw" {
						raw := ""
						if protocol == "docker" {
							raw = "docker://"
						}
						if user != "" {
							raw += user + "@"
						}
						raw += host
						if protocol == "docker" {
							raw += "/srv"
						} else {
							raw += ":/srv"
						}
						c.Raw = []byte(raw)
					} else {
						c.Protocol, c.User, c.Host, c.Path = protocol, []byte(user), []byte(host), "/srv"
					}
					if listed && classOf(c) == ClassLeadingDash {
						rec.Excluded(ClassLeadingDash)
						continue
					}
					v := judge(c)
					rec.Eval()
					if v.Violation != "" {
						ev.FailTB(t, rec, c.withText(), "%s", v.Violation)
					}
					record(rec, c, v)
				}
			}
		}
	}
}

// canonicalKnown is the canonical instance of the listed class.
var canonicalKnown = Case{Route: "raw", Raw: []byte("-oProxyCommand=x:/srv"), First: true, Ops: []string{"command"}}

func TestKnownFindings(t *testing.T) {
	if ev.ReplayPath() != "" {
		t.Skip("replaying")
	}
	f, listed := listedKnown()
	if !listed {
		t.Skip("no known findings listed for C36")
	}
	rec := ev.New(t, prop, "known-findings", "canonical instance of each listed known-finding class")
	c := canonicalKnown
	if got := classOf(&c); got != ClassLeadingDash {
		t.Fatalf("canonical instance classifies as %q", got)
	}
	v := judge(&c)
	rec.Eval()
	if v.Violation != "" {
		rec.ReportKnown(f)
		rec.Class("still-failing/" + ClassLeadingDash)
	} else {
		rec.Note("no-longer-reproduces/"+ClassLeadingDash, fmt.Sprintf("%q now satisfies the property; the entry can be marked fixed", c.Raw))
	}
}

func TestReplay(t *testing.T) {
	if ev.ReplayPath() == "" {
		t.Skip("no replay requested")
	}
	var c Case
	if _, err := ev.LoadReplay(ev.ReplayPath(), &c); err != nil {
		t.Fatalf("cannot load replay: %v", err)
	}
	rec := ev.New(t, prop, "replay", "replay of a saved case")
	v := judge(&c)
	rec.Eval()
	if v.Violation != "" {
		ev.FailTB(t, rec, c.withText(), "%s", v.Violation)
	}
}

// TestModelSelfCheck pins the grammar models on argument lists whose reading by
// the real tools is documented (so that a slip in the model cannot silently
// weaken or falsify the check).
func TestModelSelfCheck(t *testing.T) {
	if ev.ReplayPath() != "" {
		t.Skip("replaying")
	}
	ssh := parseSSH([]string{"-oConnectTimeout=5", "-p", "22", "user@host", "cmd arg"})
	if ssh.Err != "" || ssh.Target != "user@host" || optionLetters(ssh.Options) != "op" || len(ssh.Command) != 1 {
		t.Fatalf("ssh model: %+v", ssh)
	}
	if v := parseSSH([]string{"-oProxyCommand=x", "cmd"}); v.Target != "cmd" || len(v.Options) != 1 {
		t.Fatalf("ssh model must read a leading-dash destination as an option: %+v", v)
	}
	if v := parseSSH([]string{"--", "-host", "cmd"}); v.Target != "-host" || v.Err != "" {
		t.Fatalf("ssh model must honour --: %+v", v)
	}
	if v := parseSSH([]string{"-", "cmd"}); v.Target != "-" {
		t.Fatalf("ssh model must read a lone dash as an operand: %+v", v)
	}
	if v := parseSSH([]string{"host", "-v", "cmd"}); optionLetters(v.Options) != "v" || len(v.Command) != 1 {
		t.Fatalf("ssh model must resume option parsing after the destination: %+v", v)
	}
	if v := parseSCP([]string{"-C", "-P", "22", "file", "-host:x"}); v.Err != "" || len(v.Operands) != 2 {
		t.Fatalf("scp model: %+v", v)
	}
	d := parseDocker([]string{"--host", "-x", "--tls", "exec", "--interactive", "--user", "-u", "--workdir", "/h", "c", "id", "-un"})
	if d.Err != "" || d.Subcommand != "exec" || len(d.RootFlags) != 2 || len(d.Flags) != 3 || strings.Join(d.Args, " ") != "c id -un" {
		t.Fatalf("docker model: %+v", d)
	}
	if v := parseDocker([]string{"exec", "--interactive", "--privileged", "env"}); len(v.Flags) != 2 || strings.Join(v.Args, " ") != "env" {
		t.Fatalf("docker model must read a leading-dash container as a flag: %+v", v)
	}
	if v := parseDocker([]string{"cp", "/a", "-q:/b"}); v.Err == "" && len(v.Args) == 2 {
		t.Fatalf("docker model: cp parses interspersed flags: %+v", v)
	}
	if v := parseDocker([]string{"exec", "--interactive", "--", "-c", "env"}); v.Err != "" || strings.Join(v.Args, " ") != "-c env" {
		t.Fatalf("docker model must honour --: %+v", v)
	}
}
