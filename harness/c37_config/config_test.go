package c37_config

import (
	"fmt"
	"math"
	"os"
	"sort"
	"testing"

	"pgregory.net/rapid"

	"github.com/mutagen-io/mutagen/pkg/filesystem"
	"github.com/mutagen-io/mutagen/pkg/filesystem/behavior"
	"github.com/mutagen-io/mutagen/pkg/synchronization"
	"github.com/mutagen-io/mutagen/pkg/synchronization/compression"
	"github.com/mutagen-io/mutagen/pkg/synchronization/core"
	"github.com/mutagen-io/mutagen/pkg/synchronization/core/ignore"
	"github.com/mutagen-io/mutagen/pkg/synchronization/hashing"

	"verif/kit/ev"
)

const prop = "C37"

const rule = "non-trivial: the triple is accepted by session validation and at least one endpoint-specific configuration sets a field"

func listedKnown() (ev.Finding, bool) { return ev.KnownClass(prop, ClassEndpointExecutableMode) }

// ------------------------------------------------------------------ domains

var (
	fileModes  = []uint32{0, 0o600, 0o644, 0o700, 0o755, 0o100644, 0o001}
	dirModes   = []uint32{0, 0o700, 0o755, 0o40755}
	identities = []string{"", "id:0", "root", "id:", "id:01", "sid:S-1-5-32-544", "nosuchuserzz"}
	counts64   = []uint64{0, 1, math.MaxUint64}
	counts32   = []uint32{0, 1, math.MaxUint32}
	// Ignore patterns valid under both syntaxes (checked by TestDomainSelfCheck).
	ignoreLists = [][]string{nil, {"*.o"}, {"build", "!keep.o"}, {"a/**/b", "dir/*.tmp", ".git"}}
)

// enumDomain is default, every supported value, one value that exists on the
// wire but is not usable in this build (where there is one), one unknown.
func enumDomain(field string) []int32 {
	d := []int32{0}
	d = append(d, supported[field]...)
	switch field {
	case "Hash":
		d = append(d, hashXXH128)
	case "Compression":
		d = append(d, compressionZstd)
	}
	return append(d, 99)
}

// field describes how to set one configuration field from an index into its
// domain.
type field struct {
	name string
	size int
	set  func(c *Conf, i int)
}

func enumField(name string, target func(c *Conf) *int32) field {
	d := enumDomain(name)
	return field{name, len(d), func(c *Conf, i int) { *target(c) = d[i] }}
}

var fields = []field{
	enumField("SyncMode", func(c *Conf) *int32 { return &c.SyncMode }),
	enumField("Hash", func(c *Conf) *int32 { return &c.Hash }),
	{"MaxEntries", len(counts64), func(c *Conf, i int) { c.MaxEntries = counts64[i] }},
	{"MaxStaging", len(counts64), func(c *Conf, i int) { c.MaxStaging = counts64[i] }},
	enumField("Probe", func(c *Conf) *int32 { return &c.Probe }),
	enumField("Scan", func(c *Conf) *int32 { return &c.Scan }),
	enumField("Stage", func(c *Conf) *int32 { return &c.Stage }),
	enumField("Symlink", func(c *Conf) *int32 { return &c.Symlink }),
	enumField("Watch", func(c *Conf) *int32 { return &c.Watch }),
	{"Poll", len(counts32), func(c *Conf, i int) { c.Poll = counts32[i] }},
	enumField("Syntax", func(c *Conf) *int32 { return &c.Syntax }),
	{"DefaultIgnores", len(ignoreLists), func(c *Conf, i int) { c.DefaultIgnores = ignoreLists[i] }},
	{"Ignores", len(ignoreLists), func(c *Conf, i int) { c.Ignores = ignoreLists[i] }},
	enumField("VCS", func(c *Conf) *int32 { return &c.VCS }),
	enumField("Perm", func(c *Conf) *int32 { return &c.Perm }),
	{"FileMode", len(fileModes), func(c *Conf, i int) { c.FileMode = fileModes[i] }},
	{"DirMode", len(dirModes), func(c *Conf, i int) { c.DirMode = dirModes[i] }},
	{"Owner", len(identities), func(c *Conf, i int) { c.Owner = identities[i] }},
	{"Group", len(identities), func(c *Conf, i int) { c.Group = identities[i] }},
	enumField("Compression", func(c *Conf) *int32 { return &c.Compression }),
}

// endpointSettable lists the fields an endpoint-specific configuration may
// set (used to bias the random generator towards accepted triples; the
// exhaustive parts do not depend on it).
var endpointSettable = map[string]bool{"MaxEntries": true, "MaxStaging": true, "Probe": true, "Scan": true, "Stage": true,
	"Watch": true, "Poll": true, "FileMode": true, "DirMode": true, "Owner": true, "Group": true, "Compression": true}

// enumerator accumulates the evidence of an exhaustive part.
type enumerator struct {
	t       *testing.T
	rec     *ev.Recorder
	listed  bool
	classes map[string]uint64
	evals   uint64
	nts     uint64
}

func (e *enumerator) run(c *Case) {
	if e.listed && knownClassOf(c) != "" {
		e.classes["excluded-known/"+ClassEndpointExecutableMode]++
		return
	}
	v := judge(c)
	e.evals++
	if v.Violation != "" {
		e.flush()
		ev.FailTB(e.t, e.rec, c, "%s", v.Violation)
	}
	for _, cl := range v.Classes {
		e.classes[cl]++
	}
	if v.NonTrivial {
		e.nts++
		if e.nts%997 == 1 && e.rec.WantSample() {
			e.rec.Sample(c)
		}
	}
}

func (e *enumerator) flush() {
	e.rec.EvalN(e.evals)
	e.rec.NonTrivialDistinct(e.nts)
	for k, n := range e.classes {
		e.rec.ClassN(k, n)
	}
	e.evals, e.nts, e.classes = 0, 0, map[string]uint64{}
}

func newEnumerator(t *testing.T, rec *ev.Recorder) *enumerator {
	_, listed := listedKnown()
	return &enumerator{t: t, rec: rec, listed: listed, classes: map[string]uint64{}}
}

// -------------------------------------------------------------------- tests

// TestPermissionsProduct is the full product over the interacting fields:
// permissions mode (session and endpoint) x default file modes on all three
// levels x default directory modes.
func TestPermissionsProduct(t *testing.T) {
	if ev.ReplayPath() != "" {
		t.Skip("replaying")
	}
	rec := ev.New(t, prop, "permissions-product", "full product: session permissions mode x alpha permissions mode x default file mode (session, alpha, beta) x default directory mode (session, alpha, beta restricted to {unset, 0755}); "+rule)
	perms := enumDomain("Perm")
	rec.SetExhaustive(fmt.Sprintf("session perm %v x alpha perm {0,1,2} x file modes %o^3 x dir modes %o^2 x beta dir {0,0755}", perms, fileModes, dirModes))
	e := newEnumerator(t, rec)
	for _, sp := range perms {
		for _, ap := range []int32{0, 1, 2} {
			for _, sf := range fileModes {
				for _, af := range fileModes {
					for _, bf := range fileModes {
						for _, sd := range dirModes {
							for _, ad := range dirModes {
								for _, bd := range []uint32{0, 0o755} {
									e.run(&Case{
										Session: Conf{Perm: sp, FileMode: sf, DirMode: sd},
										Alpha:   Conf{Perm: ap, FileMode: af, DirMode: ad},
										Beta:    Conf{FileMode: bf, DirMode: bd},
									})
								}
							}
						}
					}
				}
			}
		}
	}
	e.flush()
}

// TestFieldTriples enumerates, for every field, every (session, alpha, beta)
// combination of its domain with all other fields unset, and for every pair of
// fields every combination of (session value of one, alpha value of the other).
func TestFieldTriples(t *testing.T) {
	if ev.ReplayPath() != "" {
		t.Skip("replaying")
	}
	rec := ev.New(t, prop, "field-triples", "per field: full product of its domain on (session, alpha, beta), other fields unset; per ordered pair of fields (F, G): session F x session G x alpha G x beta F; "+rule)
	rec.SetExhaustive("domains: enums {default, every supported value, wire values unusable in this build, 99}; counts {0,1,max}; modes and owners as listed in config_test.go; ignore lists valid under both syntaxes")
	e := newEnumerator(t, rec)
	for _, f := range fields {
		for i := 0; i < f.size; i++ {
			for j := 0; j < f.size; j++ {
				for k := 0; k < f.size; k++ {
					c := &Case{}
					f.set(&c.Session, i)
					f.set(&c.Alpha, j)
					f.set(&c.Beta, k)
					e.run(c)
				}
			}
		}
	}
	for _, f := range fields {
		for _, g := range fields {
			if f.name == g.name {
				continue
			}
			for i := 0; i < f.size; i++ {
				for j := 0; j < g.size; j++ {
					for k := 0; k < g.size; k++ {
						for l := 0; l < f.size; l++ {
							c := &Case{}
							f.set(&c.Session, i)
							g.set(&c.Session, j)
							g.set(&c.Alpha, k)
							f.set(&c.Beta, l)
							e.run(c)
						}
					}
				}
			}
		}
	}
	e.flush()
}

// drawConf draws a configuration. Endpoint-specific configurations set only
// fields an endpoint may set, except that one in ten also sets one field it
// may not, so that most triples are accepted.
func drawConf(rt *rapid.T, label string, endpoint bool) Conf {
	var c Conf
	stray := ""
	if endpoint && rapid.IntRange(0, 9).Draw(rt, label+".stray") == 9 {
		var names []string
		for _, f := range fields {
			if !endpointSettable[f.name] {
				names = append(names, f.name)
			}
		}
		stray = rapid.SampledFrom(names).Draw(rt, label+".strayField")
	}
	for _, f := range fields {
		if endpoint && !endpointSettable[f.name] {
			if f.name == stray {
				f.set(&c, rapid.IntRange(1, f.size-1).Draw(rt, label+"."+f.name))
			}
			continue
		}
		if rapid.IntRange(0, 3).Draw(rt, label+"."+f.name+".set") != 3 {
			continue
		}
		f.set(&c, rapid.IntRange(0, f.size-1).Draw(rt, label+"."+f.name))
	}
	return c
}

// repair replaces values that make a configuration unacceptable on their own,
// so that the random part spends most of its budget on accepted triples.
func repair(rt *rapid.T, c *Conf, label string, endpoint bool) {
	if rapid.IntRange(0, 9).Draw(rt, label+".keepInvalid") == 9 {
		return
	}
	fix := func(name string, v *int32) {
		if !isSupported(name, *v) {
			*v = supported[name][0]
		}
	}
	fix("SyncMode", &c.SyncMode)
	fix("Hash", &c.Hash)
	fix("Probe", &c.Probe)
	fix("Scan", &c.Scan)
	fix("Stage", &c.Stage)
	fix("Symlink", &c.Symlink)
	fix("Watch", &c.Watch)
	fix("Syntax", &c.Syntax)
	fix("VCS", &c.VCS)
	fix("Perm", &c.Perm)
	fix("Compression", &c.Compression)
	c.FileMode &= 0o777
	c.DirMode &= 0o777
	if !endpoint && effectivePortable(*c) && rapid.IntRange(0, 3).Draw(rt, label+".keepExecutable") != 3 {
		c.FileMode &^= executableBits
	}
	if !ownershipIdentifierValid(c.Owner) {
		c.Owner = ""
	}
	if !ownershipIdentifierValid(c.Group) {
		c.Group = ""
	}
}

func TestRandomTriples(t *testing.T) {
	if ev.ReplayPath() != "" {
		t.Skip("replaying")
	}
	rec := ev.New(t, prop, "triples-random", "rapid: every field of the session-wide, alpha and beta configuration drawn independently from its domain (sparse; endpoint configurations mostly restricted to endpoint-settable fields; nine in ten configurations repaired to be individually valid); "+rule)
	_, listed := listedKnown()
	ev.Check(t, rec, 40000, 2500000, func(rt *rapid.T) {
		c := &Case{Session: drawConf(rt, "session", false), Alpha: drawConf(rt, "alpha", true), Beta: drawConf(rt, "beta", true)}
		repair(rt, &c.Session, "session", false)
		repair(rt, &c.Alpha, "alpha", true)
		repair(rt, &c.Beta, "beta", true)
		if listed && knownClassOf(c) != "" {
			rec.Excluded(ClassEndpointExecutableMode)
			return
		}
		v := judge(c)
		rec.Eval()
		if v.Violation != "" {
			ev.Failf(rt, rec, c, "%s", v.Violation)
		}
		for _, cl := range v.Classes {
			rec.Class(cl)
		}
		if v.NonTrivial {
			rec.NonTrivial(ev.Hash(fmt.Sprintf("%+v", *c)))
			if rec.WantSample() {
				rec.Sample(c)
			}
		}
	})
}

// initialisable restricts a configuration to values a real endpoint on this
// machine can be created with regardless of validation (existing users, no
// Windows SIDs), so that a refusal is about the configuration, not the
// machine.
func initialisable(c *Conf) {
	for _, s := range []*string{&c.Owner, &c.Group} {
		if *s != "" && *s != "id:0" && *s != "root" {
			*s = ""
		}
	}
	if c.Poll == math.MaxUint32 {
		c.Poll = 1
	}
}

// TestRealEndpoints initialises real endpoints (local, and a remote pair over
// an in-memory connection) with the merged configurations of accepted triples.
func TestRealEndpoints(t *testing.T) {
	if ev.ReplayPath() != "" {
		t.Skip("replaying")
	}
	rec := ev.New(t, prop, "endpoints-sampled", "rapid: accepted triples (values restricted to users/groups that exist here) whose merged configurations are handed to local.NewEndpoint and to a real remote.NewEndpoint <-> remote.ServeEndpoint pair over a socket pair; "+rule)
	setupEndpointEnvironment(t)
	_, listed := listedKnown()
	ev.Check(t, rec, 500, 10000, func(rt *rapid.T) {
		c := &Case{Session: drawConf(rt, "session", false), Alpha: drawConf(rt, "alpha", true), Beta: drawConf(rt, "beta", true), Endpoints: true}
		for i, conf := range []*Conf{&c.Session, &c.Alpha, &c.Beta} {
			repair(rt, conf, fmt.Sprint("repair", i), i > 0)
			initialisable(conf)
		}
		if listed && knownClassOf(c) != "" {
			rec.Excluded(ClassEndpointExecutableMode)
			return
		}
		v := judge(c)
		rec.Eval()
		if v.Violation != "" {
			ev.Failf(rt, rec, c, "%s", v.Violation)
		}
		for _, cl := range v.Classes {
			rec.Class(cl)
		}
		if v.NonTrivial {
			rec.NonTrivial(ev.Hash(fmt.Sprintf("%+v", *c)))
			if rec.WantSample() {
				rec.Sample(c)
			}
		}
	})
}

func setupEndpointEnvironment(t *testing.T) {
	dir, err := os.MkdirTemp("", "c37_config-")
	if err != nil {
		t.Fatal(err)
	}
	t.Cleanup(func() { os.RemoveAll(dir) })
	os.Setenv("MUTAGEN_DATA_DIRECTORY", dir+"/data")
	endpointRoot = dir + "/roots"
}

// TestTextRoundTrip checks (d): every named non-default value of every
// configuration enum, and every permission mode, is read back from its text as
// the same value; texts that no value writes are refused.
func TestTextRoundTrip(t *testing.T) {
	if ev.ReplayPath() != "" {
		t.Skip("replaying")
	}
	rec := ev.New(t, prop, "text-round-trip", "every wire value 0..max+2 of the eleven configuration enums and every mode 0..07777 plus non-canonical spellings; non-trivial: values that have a text form")
	rec.SetExhaustive("enum wire values 0..(largest named)+2; filesystem.Mode 0..07777; foreign texts per type")
	type enum struct {
		name      string
		names     map[int32]string
		marshal   func(v int32) ([]byte, error)
		unmarshal func(text []byte) (int32, error)
	}
	enums := []enum{
		{"SynchronizationMode", core.SynchronizationMode_name, func(v int32) ([]byte, error) { return core.SynchronizationMode(v).MarshalText() }, func(b []byte) (int32, error) {
			x := core.SynchronizationMode(-7)
			err := x.UnmarshalText(b)
			return int32(x), err
		}},
		{"HashingAlgorithm", hashing.Algorithm_name, func(v int32) ([]byte, error) { return hashing.Algorithm(v).MarshalText() }, func(b []byte) (int32, error) {
			x := hashing.Algorithm(-7)
			err := x.UnmarshalText(b)
			return int32(x), err
		}},
		{"ProbeMode", behavior.ProbeMode_name, func(v int32) ([]byte, error) { return behavior.ProbeMode(v).MarshalText() }, func(b []byte) (int32, error) {
			x := behavior.ProbeMode(-7)
			err := x.UnmarshalText(b)
			return int32(x), err
		}},
		{"ScanMode", synchronization.ScanMode_name, func(v int32) ([]byte, error) { return synchronization.ScanMode(v).MarshalText() }, func(b []byte) (int32, error) {
			x := synchronization.ScanMode(-7)
			err := x.UnmarshalText(b)
			return int32(x), err
		}},
		{"StageMode", synchronization.StageMode_name, func(v int32) ([]byte, error) { return synchronization.StageMode(v).MarshalText() }, func(b []byte) (int32, error) {
			x := synchronization.StageMode(-7)
			err := x.UnmarshalText(b)
			return int32(x), err
		}},
		{"SymbolicLinkMode", core.SymbolicLinkMode_name, func(v int32) ([]byte, error) { return core.SymbolicLinkMode(v).MarshalText() }, func(b []byte) (int32, error) {
			x := core.SymbolicLinkMode(-7)
			err := x.UnmarshalText(b)
			return int32(x), err
		}},
		{"WatchMode", synchronization.WatchMode_name, func(v int32) ([]byte, error) { return synchronization.WatchMode(v).MarshalText() }, func(b []byte) (int32, error) {
			x := synchronization.WatchMode(-7)
			err := x.UnmarshalText(b)
			return int32(x), err
		}},
		{"IgnoreSyntax", ignore.Syntax_name, func(v int32) ([]byte, error) { return ignore.Syntax(v).MarshalText() }, func(b []byte) (int32, error) {
			x := ignore.Syntax(-7)
			err := x.UnmarshalText(b)
			return int32(x), err
		}},
		// The VCS ignore mode is written as a JSON/YAML boolean.
		{"IgnoreVCSMode", ignore.IgnoreVCSMode_name, func(v int32) ([]byte, error) { return ignore.IgnoreVCSMode(v).MarshalJSON() }, func(b []byte) (int32, error) {
			x := ignore.IgnoreVCSMode(-7)
			err := x.UnmarshalText(b)
			return int32(x), err
		}},
		{"PermissionsMode", core.PermissionsMode_name, func(v int32) ([]byte, error) { return core.PermissionsMode(v).MarshalText() }, func(b []byte) (int32, error) {
			x := core.PermissionsMode(-7)
			err := x.UnmarshalText(b)
			return int32(x), err
		}},
		{"CompressionAlgorithm", compression.Algorithm_name, func(v int32) ([]byte, error) { return compression.Algorithm(v).MarshalText() }, func(b []byte) (int32, error) {
			x := compression.Algorithm(-7)
			err := x.UnmarshalText(b)
			return int32(x), err
		}},
	}
	foreign := []string{"", " ", "unknown", "default", "Default", "PORTABLE", "Portable", " portable", "portable ", "portable\n", "0", "1", "true ", "TRUE", "none ", "two-way", "posix_raw", "sha-1", "no", "yes"}
	for _, e := range enums {
		var values []int32
		for v := range e.names {
			values = append(values, v)
		}
		sort.Slice(values, func(i, j int) bool { return values[i] < values[j] })
		largest := values[len(values)-1]
		written := map[string]int32{}
		for v := int32(0); v <= largest+2; v++ {
			rec.Eval()
			textBytes, err := e.marshal(v)
			_, named := e.names[v]
			c := map[string]any{"enum": e.name, "value": v}
			if !named || v == 0 {
				// Default and unknown values have no text of their own: whatever
				// is written must not read back as a (different) real value.
				if err == nil {
					if got, uerr := e.unmarshal(textBytes); uerr == nil {
						ev.FailTB(t, rec, c, "%s value %d (not a settable value) is written as %q, which reads back as %d", e.name, v, textBytes, got)
					}
				}
				continue
			}
			rec.NonTrivialDistinct(1)
			if err != nil {
				ev.FailTB(t, rec, c, "%s value %d cannot be written as text: %v", e.name, v, err)
			}
			got, err := e.unmarshal(textBytes)
			if err != nil || got != v {
				ev.FailTB(t, rec, c, "%s value %d is written as %q, which reads back as %d (error %v)", e.name, v, textBytes, got, err)
			}
			if other, dup := written[string(textBytes)]; dup {
				ev.FailTB(t, rec, c, "%s values %d and %d are both written as %q", e.name, other, v, textBytes)
			}
			written[string(textBytes)] = v
		}
		for _, f := range foreign {
			if _, canonical := written[f]; canonical {
				continue
			}
			rec.Eval()
			if got, err := e.unmarshal([]byte(f)); err == nil {
				ev.FailTB(t, rec, map[string]any{"enum": e.name, "text": f}, "%s reads the text %q, which no value is written as, as %d", e.name, f, got)
			} else if got != -7 {
				ev.FailTB(t, rec, map[string]any{"enum": e.name, "text": f}, "%s refuses %q but modifies the value to %d", e.name, f, got)
			}
		}
		rec.Class("enum/" + e.name)
	}
	// Permission modes.
	for m := uint32(0); m <= 0o7777; m++ {
		rec.Eval()
		textBytes, err := filesystem.Mode(m).MarshalText()
		c := map[string]any{"mode": m}
		if err != nil {
			ev.FailTB(t, rec, c, "mode %#o cannot be written: %v", m, err)
		}
		back := filesystem.Mode(0o7654321)
		err = back.UnmarshalText(textBytes)
		if m&^0o777 == 0 {
			rec.NonTrivialDistinct(1)
			if err != nil || uint32(back) != m {
				ev.FailTB(t, rec, c, "mode %#o is written as %q, which reads back as %#o (error %v)", m, textBytes, uint32(back), err)
			}
		} else if err == nil {
			ev.FailTB(t, rec, c, "mode %#o (non-permission bits) is written as %q, which reads back as %#o", m, textBytes, uint32(back))
		} else if back != 0o7654321 {
			ev.FailTB(t, rec, c, "mode text %q is refused but the value was modified", textBytes)
		}
	}
	for _, s := range []struct {
		text string
		want int64 // -1: must be refused
	}{{"644", 0o644}, {"0644", 0o644}, {"00644", 0o644}, {"0", 0}, {"777", 0o777}, {"1777", -1}, {"0o644", -1}, {"0x1a4", -1},
		{"", -1}, {"-1", -1}, {"8", -1}, {"649", -1}, {" 644", -1}, {"644 ", -1}, {"+644", -1}, {"rw-r--r--", -1}, {"37777777777", -1}, {"40000000644", -1}} {
		rec.Eval()
		var m filesystem.Mode
		err := m.UnmarshalText([]byte(s.text))
		if s.want < 0 && err == nil {
			ev.FailTB(t, rec, map[string]any{"text": s.text}, "mode text %q is read as %#o", s.text, uint32(m))
		} else if s.want >= 0 && (err != nil || int64(m) != s.want) {
			ev.FailTB(t, rec, map[string]any{"text": s.text}, "mode text %q is read as %#o (error %v), documented %#o", s.text, uint32(m), err, s.want)
		}
	}
	rec.Class("modes")
}

// canonicalKnown is the canonical instance of the listed class.
var canonicalKnown = Case{Alpha: Conf{FileMode: 0o755}}

func TestKnownFindings(t *testing.T) {
	if ev.ReplayPath() != "" {
		t.Skip("replaying")
	}
	f, listed := listedKnown()
	if !listed {
		t.Skip("no known findings listed for C37")
	}
	rec := ev.New(t, prop, "known-findings", "canonical instance of each listed known-finding class")
	c := canonicalKnown
	if knownClassOf(&c) != ClassEndpointExecutableMode {
		t.Fatalf("canonical instance is not in its class")
	}
	v := judge(&c)
	rec.Eval()
	if v.Violation != "" {
		rec.ReportKnown(f)
		rec.Class("still-failing/" + ClassEndpointExecutableMode)
	} else {
		rec.Note("no-longer-reproduces/"+ClassEndpointExecutableMode, "an alpha-specific default file mode 0755 under the default permissions mode now satisfies the property; the entry can be marked fixed")
	}
}

func TestReplay(t *testing.T) {
	if ev.ReplayPath() == "" {
		t.Skip("no replay requested")
	}
	var c Case
	part, err := ev.LoadReplay(ev.ReplayPath(), &c)
	if err != nil {
		t.Fatalf("cannot load replay: %v", err)
	}
	if part == "text-round-trip" {
		t.Skip("text round trips are deterministic: run TestTextRoundTrip")
	}
	rec := ev.New(t, prop, "replay", "replay of a saved case")
	if c.Endpoints {
		setupEndpointEnvironment(t)
	}
	v := judge(&c)
	rec.Eval()
	if v.Violation != "" {
		ev.FailTB(t, rec, &c, "%s", v.Violation)
	}
}

// TestDomainSelfCheck makes sure that the generator's "valid" values are valid
// for real (so that a refusal downstream is never the generator's fault).
func TestDomainSelfCheck(t *testing.T) {
	if ev.ReplayPath() != "" {
		t.Skip("replaying")
	}
	setupEndpointEnvironment(t)
	for _, syntax := range []int32{syntaxMutagen, syntaxDocker} {
		for _, list := range ignoreLists {
			c := Conf{Syntax: syntax, Ignores: list, Watch: 3}
			if msg := initialiseEndpoints(c.real(), true); msg != "" {
				t.Fatalf("ignore list %q is not valid under syntax %d: %s", list, syntax, msg)
			}
		}
	}
}
