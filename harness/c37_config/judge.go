package c37_config

import (
	"fmt"
	"io"
	"net"
	"os"
	"path/filepath"
	"syscall"
	"time"

	"google.golang.org/protobuf/types/known/timestamppb"

	"github.com/mutagen-io/mutagen/pkg/filesystem/behavior"
	"github.com/mutagen-io/mutagen/pkg/identifier"
	"github.com/mutagen-io/mutagen/pkg/logging"
	"github.com/mutagen-io/mutagen/pkg/synchronization"
	"github.com/mutagen-io/mutagen/pkg/synchronization/compression"
	"github.com/mutagen-io/mutagen/pkg/synchronization/core"
	"github.com/mutagen-io/mutagen/pkg/synchronization/core/ignore"
	"github.com/mutagen-io/mutagen/pkg/synchronization/endpoint/local"
	"github.com/mutagen-io/mutagen/pkg/synchronization/endpoint/remote"
	"github.com/mutagen-io/mutagen/pkg/synchronization/hashing"
	urlpkg "github.com/mutagen-io/mutagen/pkg/url"

	"verif/kit/ev"
)

// Case is one (session-wide, alpha-specific, beta-specific) triple.
type Case struct {
	Session Conf `json:"session"`
	Alpha   Conf `json:"alpha"`
	Beta    Conf `json:"beta"`
	// Endpoints asks for real endpoint initialisation (local.NewEndpoint and a
	// remote.NewEndpoint <-> ServeEndpoint pair) with the merged configurations
	// of an accepted triple.
	Endpoints bool `json:"endpoints,omitempty"`
}

// spare copies a list into a slice with unused capacity, as lists grown by
// append (e.g. the result of an earlier merge) have: a merge that appends in
// place would then write into storage shared with its input.
func spare(list []string) []string {
	if list == nil {
		return nil
	}
	out := make([]string, len(list), len(list)+4)
	copy(out, list)
	return out
}

func (c Conf) real() *synchronization.Configuration {
	return &synchronization.Configuration{
		SynchronizationMode:    core.SynchronizationMode(c.SyncMode),
		HashingAlgorithm:       hashing.Algorithm(c.Hash),
		MaximumEntryCount:      c.MaxEntries,
		MaximumStagingFileSize: c.MaxStaging,
		ProbeMode:              behavior.ProbeMode(c.Probe),
		ScanMode:               synchronization.ScanMode(c.Scan),
		StageMode:              synchronization.StageMode(c.Stage),
		SymbolicLinkMode:       core.SymbolicLinkMode(c.Symlink),
		WatchMode:              synchronization.WatchMode(c.Watch),
		WatchPollingInterval:   c.Poll,
		IgnoreSyntax:           ignore.Syntax(c.Syntax),
		DefaultIgnores:         spare(c.DefaultIgnores),
		Ignores:                spare(c.Ignores),
		IgnoreVCSMode:          ignore.IgnoreVCSMode(c.VCS),
		PermissionsMode:        core.PermissionsMode(c.Perm),
		DefaultFileMode:        c.FileMode,
		DefaultDirectoryMode:   c.DirMode,
		DefaultOwner:           c.Owner,
		DefaultGroup:           c.Group,
		CompressionAlgorithm:   compression.Algorithm(c.Compression),
	}
}

func describe(r *synchronization.Configuration) Conf {
	return Conf{
		SyncMode: int32(r.SynchronizationMode), Hash: int32(r.HashingAlgorithm),
		MaxEntries: r.MaximumEntryCount, MaxStaging: r.MaximumStagingFileSize,
		Probe: int32(r.ProbeMode), Scan: int32(r.ScanMode), Stage: int32(r.StageMode),
		Symlink: int32(r.SymbolicLinkMode), Watch: int32(r.WatchMode), Poll: r.WatchPollingInterval,
		Syntax: int32(r.IgnoreSyntax), DefaultIgnores: r.DefaultIgnores, Ignores: r.Ignores,
		VCS: int32(r.IgnoreVCSMode), Perm: int32(r.PermissionsMode),
		FileMode: r.DefaultFileMode, DirMode: r.DefaultDirectoryMode,
		Owner: r.DefaultOwner, Group: r.DefaultGroup, Compression: int32(r.CompressionAlgorithm),
	}
}

// sessionIdentifier is a fixed, well-formed session identifier.
var sessionIdentifier = func() string {
	id, err := identifier.New(identifier.PrefixSynchronization)
	if err != nil {
		panic(err)
	}
	return id
}()

// accepted applies the predicate under which sessions are admitted:
// Session.EnsureValid, which every loaded session must pass. The daemon's
// creation request (an unexported method of pkg/service/synchronization, which
// the harness module cannot import without new dependencies) checks the same
// three configuration clauses today; clauses reports what those three clauses
// say, so that a divergence between the two shows up in the evidence.
func accepted(session, alpha, beta *synchronization.Configuration) (whole, clauses bool) {
	s := &synchronization.Session{
		Identifier:         sessionIdentifier,
		Version:            synchronization.DefaultVersion,
		CreationTime:       timestamppb.New(time.Unix(1700000000, 0)),
		Alpha:              &urlpkg.URL{Kind: urlpkg.Kind_Synchronization, Protocol: urlpkg.Protocol_Local, Path: "/alpha"},
		Beta:               &urlpkg.URL{Kind: urlpkg.Kind_Synchronization, Protocol: urlpkg.Protocol_Local, Path: "/beta"},
		Configuration:      session,
		ConfigurationAlpha: alpha,
		ConfigurationBeta:  beta,
	}
	whole = s.EnsureValid() == nil
	clauses = session.EnsureValid(false) == nil && alpha.EnsureValid(true) == nil && beta.EnsureValid(true) == nil
	return
}

// Verdict is the outcome of judging a case.
type Verdict struct {
	Violation  string
	Accepted   bool
	NonTrivial bool
	Classes    []string
}

// endpointRoot / endpointData are set by the tests that initialise real
// endpoints.
var endpointRoot string

func judge(c *Case) (v Verdict) {
	session, alpha, beta := c.Session.real(), c.Alpha.real(), c.Beta.real()
	ok, clauses := accepted(session, alpha, beta)
	if ok && !clauses {
		// Session validation never admits what one of its own clauses refuses.
		v.Violation = "Session.EnsureValid accepts a triple that one of the three configuration checks refuses"
		return
	}
	if clauses && !ok {
		v.Classes = append(v.Classes, "refused-by-session-validation-only")
	}
	v.Accepted = ok
	// The same session-wide configuration is merged with both endpoint
	// configurations (as session creation and the project commands do); the
	// first result must still be what it was once the second exists.
	firstMerged := synchronization.MergeConfigurations(session, alpha)
	synchronization.MergeConfigurations(session, beta)
	if got, want := describe(firstMerged), modelMerge(c.Session, c.Alpha); !sameConf(got, want) {
		v.Violation = fmt.Sprintf("alpha: the merged configuration became %+v after the same session-wide configuration was merged with the beta configuration; specified %+v", got, want)
		return
	}
	for _, side := range []struct {
		name     string
		specific *synchronization.Configuration
		conf     Conf
		alpha    bool
	}{{"alpha", alpha, c.Alpha, true}, {"beta", beta, c.Beta, false}} {
		// (c) merging, for every triple.
		merged := synchronization.MergeConfigurations(session, side.specific)
		want := modelMerge(c.Session, side.conf)
		if got := describe(merged); !sameConf(got, want) {
			v.Violation = fmt.Sprintf("%s: merged configuration is %+v, specified %+v", side.name, got, want)
			return
		}
		if !sameConf(describe(session), c.Session) || !sameConf(describe(side.specific), side.conf) {
			v.Violation = fmt.Sprintf("%s: merging modified one of its inputs", side.name)
			return
		}
		if !ok {
			continue
		}
		// Real endpoints first (when asked for), so that a refusal is reported in
		// the words of the endpoint that refuses.
		if c.Endpoints {
			if msg := initialiseEndpoints(merged, side.alpha); msg != "" {
				v.Violation = fmt.Sprintf("accepted triple, effective %s configuration %+v: %s", side.name, want, msg)
				return
			}
		}
		// (a) what a remote endpoint's initialize request checks.
		if err := merged.EnsureValid(false); err != nil {
			v.Violation = fmt.Sprintf("accepted triple, but the effective %s configuration %+v is refused by the validation a remote endpoint applies: %v", side.name, want, err)
			return
		}
		// (a', b) the requirement stated independently.
		if msg := endpointRequirement(want); msg != "" {
			v.Violation = fmt.Sprintf("accepted triple, but the effective %s configuration is not valid for an endpoint: %s", side.name, msg)
			return
		}
	}
	if ok {
		v.Classes = append(v.Classes, "accepted")
		if hasOverride(c.Alpha) || hasOverride(c.Beta) {
			v.NonTrivial = true
			v.Classes = append(v.Classes, "accepted-with-override")
		}
		if c.Alpha.FileMode != 0 || c.Beta.FileMode != 0 {
			v.Classes = append(v.Classes, "accepted-with-endpoint-file-mode")
		}
	} else {
		v.Classes = append(v.Classes, "refused")
	}
	return
}

// socketPair returns the two ends of a kernel-buffered stream connection (like
// the OS pipes the agent transports use; net.Pipe is unbuffered, which makes
// the closing flushes of both sides wait for each other).
func socketPair() (net.Conn, net.Conn, error) {
	fds, err := syscall.Socketpair(syscall.AF_UNIX, syscall.SOCK_STREAM, 0)
	if err != nil {
		return nil, nil, err
	}
	var conns [2]net.Conn
	for i, fd := range fds {
		file := os.NewFile(uintptr(fd), fmt.Sprintf("socketpair-%d", i))
		conn, err := net.FileConn(file)
		file.Close()
		if err != nil {
			if i == 1 {
				conns[0].Close()
			} else {
				syscall.Close(fds[1])
			}
			return nil, nil, err
		}
		conns[i] = conn
	}
	return conns[0], conns[1], nil
}

// initialiseEndpoints creates a real local endpoint and a real remote
// endpoint pair with the configuration.
func initialiseEndpoints(merged *synchronization.Configuration, alpha bool) (msg string) {
	defer func() {
		if p := recover(); p != nil {
			msg = fmt.Sprintf("endpoint initialisation panicked: %v", p)
		}
	}()
	logger := logging.NewLogger(logging.LevelDisabled, io.Discard)
	root := filepath.Join(endpointRoot, map[bool]string{true: "alpha", false: "beta"}[alpha])
	if err := os.MkdirAll(root, 0o755); err != nil {
		return "harness: " + err.Error()
	}
	endpoint, err := local.NewEndpoint(logger, root, sessionIdentifier, synchronization.DefaultVersion, merged, alpha)
	if err != nil {
		return fmt.Sprintf("local.NewEndpoint refuses it: %v", err)
	}
	endpoint.Shutdown()

	// The remote pair: the client sends the configuration, the server validates
	// it and creates its own local endpoint.
	clientSide, serverSide, err := socketPair()
	if err != nil {
		return "harness: " + err.Error()
	}
	served := make(chan error, 1)
	go func() {
		defer func() {
			if p := recover(); p != nil {
				served <- fmt.Errorf("server panicked: %v", p)
				serverSide.Close()
			}
		}()
		served <- remote.ServeEndpoint(logger, serverSide)
	}()
	client, err := remote.NewEndpoint(logger, clientSide, root, sessionIdentifier, synchronization.DefaultVersion, merged, alpha)
	if err != nil {
		clientSide.Close()
		select {
		case <-served:
		case <-time.After(2 * time.Minute):
			ev.Inconclusive("C37: endpoint server did not return within 2 minutes after the client failed")
		}
		return fmt.Sprintf("the remote endpoint refuses it: %v", err)
	}
	client.Shutdown()
	select {
	case <-served:
	case <-time.After(2 * time.Minute):
		ev.Inconclusive("C37: endpoint server did not return within 2 minutes after the client shut down")
	}
	return ""
}
