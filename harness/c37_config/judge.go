package c37_config

import (
	"fmt"
	"io"
	"net"
	"os"
	"path/filepath"
	"time"

	"google.golang.org/protobuf/types/known/timestamppb"

	"github.com/mutagen-io/mutagen/pkg/filesystem/behavior"
	"github.com/mutagen-io/mutagen/pkg/identifier"
	"github.com/mutagen-io/mutagen/pkg/logging"
	"github.com/mutagen-io/mutagen/pkg/synchronization"
	"github.com/mutagen-io/mutagen/pkg/synchronization/compression"
	"github.com/mutagen-io/mutagen/pkg/synchronization/core"
	"github.com/mutagen-io/mutagen/pkg/synchronization/core/ignore"
	"github.com/mutagen-io/mutagen/pkg/synchronization/endpoint/local"
	"github.com/mutagen-io/mutagen/pkg/synchronization/endpoint/remote"
	"github.com/mutagen-io/mutagen/pkg/synchronization/hashing"
	urlpkg "github.com/mutagen-io/mutagen/pkg/url"

	"verif/kit/ev"
)

// Case is one (session-wide, alpha-specific, beta-specific) triple.
type Case struct {
	Session Conf `json:"session"`
	Alpha   Conf `json:"alpha"`
	Beta    Conf `json:"beta"`
	// Endpoints asks for real endpoint initialisation (local.NewEndpoint and a
	// remote.NewEndpoint <-> ServeEndpoint pair) with the merged configurations
	// of an accepted triple.
	Endpoints bool `json:"endpoints,omitempty"`
}

func (c Conf) real() *synchronization.Configuration {
	return &synchronization.Configuration{
		SynchronizationMode:    core.SynchronizationMode(c.SyncMode),
		HashingAlgorithm:       hashing.Algorithm(c.Hash),
		MaximumEntryCount:      c.MaxEntries,
		MaximumStagingFileSize: c.MaxStaging,
		ProbeMode:              behavior.ProbeMode(c.Probe),
		ScanMode:               synchronization.ScanMode(c.Scan),
		StageMode:              synchronization.StageMode(c.Stage),
		SymbolicLinkMode:       core.SymbolicLinkMode(c.Symlink),
		WatchMode:              synchronization.WatchMode(c.Watch),
		WatchPollingInterval:   c.Poll,
		IgnoreSyntax:           ignore.Syntax(c.Syntax),
		DefaultIgnores:         append([]string(nil), c.DefaultIgnores...),
		Ignores:                append([]string(nil), c.Ignores...),
		IgnoreVCSMode:          ignore.IgnoreVCSMode(c.VCS),
		PermissionsMode:        core.PermissionsMode(c.Perm),
		DefaultFileMode:        c.FileMode,
		DefaultDirectoryMode:   c.DirMode,
		DefaultOwner:           c.Owner,
		DefaultGroup:           c.Group,
		CompressionAlgorithm:   compression.Algorithm(c.Compression),
	}
}

func describe(r *synchronization.Configuration) Conf {
	return Conf{
		SyncMode: int32(r.SynchronizationMode), Hash: int32(r.HashingAlgorithm),
		MaxEntries: r.MaximumEntryCount, MaxStaging: r.MaximumStagingFileSize,
		Probe: int32(r.ProbeMode), Scan: int32(r.ScanMode), Stage: int32(r.StageMode),
		Symlink: int32(r.SymbolicLinkMode), Watch: int32(r.WatchMode), Poll: r.WatchPollingInterval,
		Syntax: int32(r.IgnoreSyntax), DefaultIgnores: r.DefaultIgnores, Ignores: r.Ignores,
		VCS: int32(r.IgnoreVCSMode), Perm: int32(r.PermissionsMode),
		FileMode: r.DefaultFileMode, DirMode: r.DefaultDirectoryMode,
		Owner: r.DefaultOwner, Group: r.DefaultGroup, Compression: int32(r.CompressionAlgorithm),
	}
}

// sessionIdentifier is a fixed, well-formed session identifier.
var sessionIdentifier = func() string {
	id, err := identifier.New(identifier.PrefixSynchronization)
	if err != nil {
		panic(err)
	}
	return id
}()

// accepted applies the predicate session creation and loading apply
// (Session.EnsureValid; the daemon's creation request checks the same three
// configuration clauses, which is cross-checked here).
func accepted(session, alpha, beta *synchronization.Configuration) (bool, string) {
	s := &synchronization.Session{
		Identifier:         sessionIdentifier,
		Version:            synchronization.DefaultVersion,
		CreationTime:       timestamppb.New(time.Unix(1700000000, 0)),
		Alpha:              &urlpkg.URL{Kind: urlpkg.Kind_Synchronization, Protocol: urlpkg.Protocol_Local, Path: "/alpha"},
		Beta:               &urlpkg.URL{Kind: urlpkg.Kind_Synchronization, Protocol: urlpkg.Protocol_Local, Path: "/beta"},
		Configuration:      session,
		ConfigurationAlpha: alpha,
		ConfigurationBeta:  beta,
	}
	whole := s.EnsureValid() == nil
	parts := session.EnsureValid(false) == nil && alpha.EnsureValid(true) == nil && beta.EnsureValid(true) == nil
	if whole != parts {
		return whole, fmt.Sprintf("Session.EnsureValid accepts=%v but the three configuration checks of the creation request accept=%v", whole, parts)
	}
	return whole, ""
}

// Verdict is the outcome of judging a case.
type Verdict struct {
	Violation  string
	Accepted   bool
	NonTrivial bool
	Classes    []string
}

// endpointRoot / endpointData are set by the tests that initialise real
// endpoints.
var endpointRoot string

func judge(c *Case) (v Verdict) {
	session, alpha, beta := c.Session.real(), c.Alpha.real(), c.Beta.real()
	ok, inconsistency := accepted(session, alpha, beta)
	if inconsistency != "" {
		v.Violation = inconsistency
		return
	}
	v.Accepted = ok
	for _, side := range []struct {
		name     string
		specific *synchronization.Configuration
		conf     Conf
		alpha    bool
	}{{"alpha", alpha, c.Alpha, true}, {"beta", beta, c.Beta, false}} {
		// (c) merging, for every triple.
		merged := synchronization.MergeConfigurations(session, side.specific)
		want := modelMerge(c.Session, side.conf)
		if got := describe(merged); !sameConf(got, want) {
			v.Violation = fmt.Sprintf("%s: merged configuration is %+v, specified %+v", side.name, got, want)
			return
		}
		if !sameConf(describe(session), c.Session) || !sameConf(describe(side.specific), side.conf) {
			v.Violation = fmt.Sprintf("%s: merging modified one of its inputs", side.name)
			return
		}
		if !ok {
			continue
		}
		// Real endpoints first (when asked for), so that a refusal is reported in
		// the words of the endpoint that refuses.
		if c.Endpoints {
			if msg := initialiseEndpoints(merged, side.alpha); msg != "" {
				v.Violation = fmt.Sprintf("accepted triple, effective %s configuration %+v: %s", side.name, want, msg)
				return
			}
		}
		// (a) what a remote endpoint's initialize request checks.
		if err := merged.EnsureValid(false); err != nil {
			v.Violation = fmt.Sprintf("accepted triple, but the effective %s configuration %+v is refused by the validation a remote endpoint applies: %v", side.name, want, err)
			return
		}
		// (a', b) the requirement stated independently.
		if msg := endpointRequirement(want); msg != "" {
			v.Violation = fmt.Sprintf("accepted triple, but the effective %s configuration is not valid for an endpoint: %s", side.name, msg)
			return
		}
	}
	if ok {
		v.Classes = append(v.Classes, "accepted")
		if hasOverride(c.Alpha) || hasOverride(c.Beta) {
			v.NonTrivial = true
			v.Classes = append(v.Classes, "accepted-with-override")
		}
		if c.Alpha.FileMode != 0 || c.Beta.FileMode != 0 {
			v.Classes = append(v.Classes, "accepted-with-endpoint-file-mode")
		}
	} else {
		v.Classes = append(v.Classes, "refused")
	}
	return
}

// initialiseEndpoints creates a real local endpoint and a real remote
// endpoint pair with the configuration.
func initialiseEndpoints(merged *synchronization.Configuration, alpha bool) (msg string) {
	defer func() {
		if p := recover(); p != nil {
			msg = fmt.Sprintf("endpoint initialisation panicked: %v", p)
		}
	}()
	logger := logging.NewLogger(logging.LevelDisabled, io.Discard)
	root := filepath.Join(endpointRoot, map[bool]string{true: "alpha", false: "beta"}[alpha])
	if err := os.MkdirAll(root, 0o755); err != nil {
		return "harness: " + err.Error()
	}
	endpoint, err := local.NewEndpoint(logger, root, sessionIdentifier, synchronization.DefaultVersion, merged, alpha)
	if err != nil {
		return fmt.Sprintf("local.NewEndpoint refuses it: %v", err)
	}
	endpoint.Shutdown()

	// The remote pair: the client sends the configuration, the server validates
	// it and creates its own local endpoint.
	clientSide, serverSide := net.Pipe()
	served := make(chan error, 1)
	go func() {
		defer func() {
			if p := recover(); p != nil {
				served <- fmt.Errorf("server panicked: %v", p)
				serverSide.Close()
			}
		}()
		served <- remote.ServeEndpoint(logger, serverSide)
	}()
	client, err := remote.NewEndpoint(logger, clientSide, root, sessionIdentifier, synchronization.DefaultVersion, merged, alpha)
	if err != nil {
		clientSide.Close()
		select {
		case <-served:
		case <-time.After(2 * time.Minute):
			ev.Inconclusive("C37: endpoint server did not return within 2 minutes after the client failed")
		}
		return fmt.Sprintf("the remote endpoint refuses it: %v", err)
	}
	client.Shutdown()
	select {
	case <-served:
	case <-time.After(2 * time.Minute):
		ev.Inconclusive("C37: endpoint server did not return within 2 minutes after the client shut down")
	}
	return ""
}
