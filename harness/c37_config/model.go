// Package c37_config checks property C37: every combination of session-wide and
// endpoint-specific configuration that session creation accepts yields, for
// each endpoint, an effective (merged) configuration that endpoint
// initialization accepts too.
//
// This file is the independent side: a plain-data description of a
// configuration, an own merge, and an own statement of what an endpoint
// requires of its effective configuration. Nothing here calls into Mutagen's
// validation or merge code.
package c37_config

import (
	"fmt"
	"reflect"
	"strings"
)

// Conf is a configuration as plain data (enum fields by wire number).
type Conf struct {
	SyncMode       int32    `json:"sync_mode,omitempty"`
	Hash           int32    `json:"hash,omitempty"`
	MaxEntries     uint64   `json:"max_entries,omitempty"`
	MaxStaging     uint64   `json:"max_staging,omitempty"`
	Probe          int32    `json:"probe,omitempty"`
	Scan           int32    `json:"scan,omitempty"`
	Stage          int32    `json:"stage,omitempty"`
	Symlink        int32    `json:"symlink,omitempty"`
	Watch          int32    `json:"watch,omitempty"`
	Poll           uint32   `json:"poll,omitempty"`
	Syntax         int32    `json:"syntax,omitempty"`
	DefaultIgnores []string `json:"default_ignores,omitempty"`
	Ignores        []string `json:"ignores,omitempty"`
	VCS            int32    `json:"vcs,omitempty"`
	Perm           int32    `json:"perm,omitempty"`
	FileMode       uint32   `json:"file_mode,omitempty"`
	DirMode        uint32   `json:"dir_mode,omitempty"`
	Owner          string   `json:"owner,omitempty"`
	Group          string   `json:"group,omitempty"`
	Compression    int32    `json:"compression,omitempty"`
}

// Wire numbers of the values the model needs to name (from the .proto files).
const (
	permPortable = 1
	permManual   = 2

	syntaxMutagen = 1
	syntaxDocker  = 2

	hashXXH128      = 3 // needs the SSPL build, which the harness does not use
	compressionZstd = 3 // likewise
)

// supported lists, per enum field, the non-default values an endpoint of this
// build can work with.
var supported = map[string][]int32{
	"SyncMode":    {1, 2, 3, 4},
	"Hash":        {1, 2},
	"Probe":       {1, 2},
	"Scan":        {1, 2},
	"Stage":       {1, 2, 3},
	"Symlink":     {1, 2, 3},
	"Watch":       {1, 2, 3},
	"Syntax":      {1, 2},
	"VCS":         {1, 2},
	"Perm":        {1, 2},
	"Compression": {1, 2},
}

func isSupported(field string, v int32) bool {
	if v == 0 {
		return true
	}
	for _, s := range supported[field] {
		if s == v {
			return true
		}
	}
	return false
}

func pickInt32(higher, lower int32) int32 {
	if higher != 0 {
		return higher
	}
	return lower
}

func concat(a, b []string) []string {
	var out []string
	out = append(out, a...)
	out = append(out, b...)
	return out
}

// modelMerge is the specification of merging: endpoint-specific (higher)
// values override session-wide (lower) ones field by field when they are set;
// ignore lists are the session's followed by the endpoint's.
func modelMerge(lower, higher Conf) Conf {
	m := Conf{
		SyncMode:       pickInt32(higher.SyncMode, lower.SyncMode),
		Hash:           pickInt32(higher.Hash, lower.Hash),
		Probe:          pickInt32(higher.Probe, lower.Probe),
		Scan:           pickInt32(higher.Scan, lower.Scan),
		Stage:          pickInt32(higher.Stage, lower.Stage),
		Symlink:        pickInt32(higher.Symlink, lower.Symlink),
		Watch:          pickInt32(higher.Watch, lower.Watch),
		Syntax:         pickInt32(higher.Syntax, lower.Syntax),
		VCS:            pickInt32(higher.VCS, lower.VCS),
		Perm:           pickInt32(higher.Perm, lower.Perm),
		Compression:    pickInt32(higher.Compression, lower.Compression),
		DefaultIgnores: concat(lower.DefaultIgnores, higher.DefaultIgnores),
		Ignores:        concat(lower.Ignores, higher.Ignores),
	}
	m.MaxEntries = lower.MaxEntries
	if higher.MaxEntries != 0 {
		m.MaxEntries = higher.MaxEntries
	}
	m.MaxStaging = lower.MaxStaging
	if higher.MaxStaging != 0 {
		m.MaxStaging = higher.MaxStaging
	}
	m.Poll = lower.Poll
	if higher.Poll != 0 {
		m.Poll = higher.Poll
	}
	m.FileMode = lower.FileMode
	if higher.FileMode != 0 {
		m.FileMode = higher.FileMode
	}
	m.DirMode = lower.DirMode
	if higher.DirMode != 0 {
		m.DirMode = higher.DirMode
	}
	m.Owner = lower.Owner
	if higher.Owner != "" {
		m.Owner = higher.Owner
	}
	m.Group = lower.Group
	if higher.Group != "" {
		m.Group = higher.Group
	}
	return m
}

// sameConf compares two configurations, treating nil and empty lists alike.
func sameConf(a, b Conf) bool {
	norm := func(c Conf) Conf {
		if len(c.DefaultIgnores) == 0 {
			c.DefaultIgnores = nil
		}
		if len(c.Ignores) == 0 {
			c.Ignores = nil
		}
		return c
	}
	return reflect.DeepEqual(norm(a), norm(b))
}

// effectivePortable tells whether an endpoint running with the (merged)
// configuration propagates executability portably: that is the default of
// session version 1 and the explicit "portable" mode.
func effectivePortable(c Conf) bool {
	return c.Perm == 0 || c.Perm == permPortable
}

const executableBits = 0o111

func ownershipIdentifierValid(s string) bool {
	if s == "" {
		return false
	}
	if strings.HasPrefix(s, "id:") {
		// A decimal number without leading zeros ("0" itself is allowed).
		v := s[3:]
		if v == "" || (v[0] == '0' && v != "0") {
			return false
		}
		for _, r := range v {
			if r < '0' || r > '9' {
				return false
			}
		}
		return true
	}
	if strings.HasPrefix(s, "sid:") {
		return len(s) > 4
	}
	return true
}

// endpointRequirement states what an endpoint requires of its effective
// configuration; "" means the configuration is fine.
func endpointRequirement(c Conf) string {
	for _, f := range []struct {
		name string
		v    int32
	}{{"SyncMode", c.SyncMode}, {"Hash", c.Hash}, {"Probe", c.Probe}, {"Scan", c.Scan}, {"Stage", c.Stage},
		{"Symlink", c.Symlink}, {"Watch", c.Watch}, {"Syntax", c.Syntax}, {"VCS", c.VCS}, {"Perm", c.Perm}, {"Compression", c.Compression}} {
		if !isSupported(f.name, f.v) {
			return fmt.Sprintf("%s has the unsupported value %d", f.name, f.v)
		}
	}
	if c.FileMode != 0 {
		if c.FileMode&^0o777 != 0 {
			return fmt.Sprintf("default file mode %#o has non-permission bits", c.FileMode)
		}
		if effectivePortable(c) && c.FileMode&executableBits != 0 {
			return fmt.Sprintf("default file mode %#o has executable bits although executability is propagated portably", c.FileMode)
		}
	}
	if c.DirMode != 0 && c.DirMode&^0o777 != 0 {
		return fmt.Sprintf("default directory mode %#o has non-permission bits", c.DirMode)
	}
	if c.Owner != "" && !ownershipIdentifierValid(c.Owner) {
		return fmt.Sprintf("default owner %q is malformed", c.Owner)
	}
	if c.Group != "" && !ownershipIdentifierValid(c.Group) {
		return fmt.Sprintf("default group %q is malformed", c.Group)
	}
	return ""
}

// hasOverride tells whether an endpoint-specific configuration sets anything.
func hasOverride(c Conf) bool { return !sameConf(c, Conf{}) }

// ClassEndpointExecutableMode is the classifier of the suspected finding: an
// endpoint-specific default file mode with executable bits (and nothing but
// permission bits) while the session's permissions mode is, or defaults to,
// portable.
const ClassEndpointExecutableMode = "endpoint-specific-executable-file-mode-under-portable"

func endpointModeInClass(session, endpoint Conf) bool {
	m := endpoint.FileMode
	return m != 0 && m&^0o777 == 0 && m&executableBits != 0 && (session.Perm == 0 || session.Perm == permPortable)
}

func knownClassOf(c *Case) string {
	if endpointModeInClass(c.Session, c.Alpha) || endpointModeInClass(c.Session, c.Beta) {
		return ClassEndpointExecutableMode
	}
	return ""
}
