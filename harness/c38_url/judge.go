package c38_url

import (
	"fmt"
	"os"
	"sort"
	"strings"

	"github.com/mutagen-io/mutagen/pkg/url"
)

// Case is one input; it is what replay files hold. Raw is kept as bytes so
// that invalid UTF-8 survives JSON.
type Case struct {
	Raw        []byte            `json:"raw"`
	Text       string            `json:"text,omitempty"` // %q rendering of Raw, informational
	Forwarding bool              `json:"forwarding"`
	First      bool              `json:"first"`
	Env        map[string]string `json:"env,omitempty"` // Docker-related variables set while parsing
}

func (c *Case) withText() *Case {
	d := *c
	d.Text = fmt.Sprintf("%q", c.Raw)
	return &d
}

func (c *Case) fingerprintParts() []string {
	keys := make([]string, 0, len(c.Env))
	for k, v := range c.Env {
		keys = append(keys, k+"="+v)
	}
	sort.Strings(keys)
	return append([]string{string(c.Raw), fmt.Sprint(c.Forwarding, c.First)}, keys...)
}

// Verdict is what judge reports about one case.
type Verdict struct {
	Violation  string
	Proto      string // protocol of the parsed URL ("" when rejected)
	NonTrivial bool   // parsed as SSH or Docker
	Known      string // known-finding class the case belongs to ("" if none)
	Classes    []string
}

var envNames = func() []string {
	var out []string
	for _, v := range dockerVariables {
		out = append(out, v)
		for _, p := range []string{"MUTAGEN_ALPHA_", "MUTAGEN_BETA_", "MUTAGEN_SOURCE_", "MUTAGEN_DESTINATION_"} {
			out = append(out, p+v)
		}
	}
	return out
}()

// envState remembers what judge last installed so that unchanged environments
// cost nothing (the exhaustive part runs millions of cases with none).
var envInstalled = map[string]string{}
var envClean bool

func installEnv(env map[string]string) {
	if !envClean {
		for _, n := range envNames {
			os.Unsetenv(n)
		}
		envClean = true
		envInstalled = map[string]string{}
	}
	for n := range envInstalled {
		if _, keep := env[n]; !keep {
			os.Unsetenv(n)
			delete(envInstalled, n)
		}
	}
	for n, v := range env {
		if cur, ok := envInstalled[n]; !ok || cur != v {
			os.Setenv(n, v)
			envInstalled[n] = v
		}
	}
}

var cwd = func() string {
	d, err := os.Getwd()
	if err != nil {
		panic(err)
	}
	return d
}()

func kindOf(forwarding bool) url.Kind {
	if forwarding {
		return url.Kind_Forwarding
	}
	return url.Kind_Synchronization
}

func protoName(p url.Protocol) string {
	switch p {
	case url.Protocol_Local:
		return "local"
	case url.Protocol_SSH:
		return "ssh"
	case url.Protocol_Docker:
		return "docker"
	}
	return fmt.Sprintf("protocol(%d)", int32(p))
}

func render(u *url.URL) string {
	return fmt.Sprintf("{kind=%v proto=%s user=%q host=%q port=%d path=%q env=%v params=%v}",
		u.Kind, protoName(u.Protocol), u.User, u.Host, u.Port, u.Path, u.Environment, u.Parameters)
}

func sameEnv(a, b map[string]string) bool {
	if len(a) != len(b) {
		return false
	}
	for k, v := range a {
		if w, ok := b[k]; !ok || w != v {
			return false
		}
	}
	return true
}

// sameAsModel compares a real URL with the model's, field by field (own
// comparison, url.Equal is not used here).
func sameAsModel(u *url.URL, m *MURL) bool {
	return u.Kind == kindOf(m.Forwarding) && protoName(u.Protocol) == m.Proto && u.User == m.User &&
		u.Host == m.Host && u.Port == m.Port && u.Path == m.Path && sameEnv(u.Environment, m.Env) && len(u.Parameters) == 0
}

// sameURL is the harness's own field-wise equality of two real URLs.
func sameURL(a, b *url.URL) bool {
	return a.Kind == b.Kind && a.Protocol == b.Protocol && a.User == b.User && a.Host == b.Host &&
		a.Port == b.Port && a.Path == b.Path && sameEnv(a.Environment, b.Environment) && sameEnv(a.Parameters, b.Parameters)
}

// judge decides C38 for one raw string:
//
//	(1) validity    Parse(s) = u  =>  u.EnsureValid() == nil
//	(2) round trip  Parse(u.Format("")) succeeds and yields a URL with the same
//	                fields as u (and url.Equal agrees)
//	(3) reference   Parse agrees with the harness's own reading of the documented
//	                grammar (accept/reject and every field), which pins down what
//	                "the same URL" has to be and catches parser changes that are
//	                self-consistent under (2)
//	(4) display     Format(prefix) extends Format("") by the locked-in Docker
//	                variables in the documented order
func judge(c *Case) Verdict {
	var v Verdict
	raw := string(c.Raw)
	installEnv(c.Env)
	kind := kindOf(c.Forwarding)

	m, sh, merr := parseModel(raw, c.Forwarding, c.First, c.Env, cwd)
	v.Known = knownClassOf(m, sh)
	v.Classes = append(v.Classes, "grammar/"+sh.proto)

	u, err := url.Parse(raw, kind, c.First)
	if err != nil {
		if u != nil {
			v.Violation = fmt.Sprintf("Parse(%q) returned both a URL and an error %v", raw, err)
			return v
		}
		v.Classes = append(v.Classes, "rejected")
	} else if u == nil {
		v.Violation = fmt.Sprintf("Parse(%q) returned neither URL nor error", raw)
		return v
	}

	// (3) reference parse. Two documented-vs-actual quirks are outside the
	// model and excluded from this comparison only (they still go through the
	// round-trip oracle): a docker:// prefix that only matches after Unicode
	// case folding (Kelvin sign), and "/~X:/" Docker paths where both path
	// heuristics fire.
	foldedPrefix := !hasDockerPrefix(raw) && strings.HasPrefix(strings.ToLower(raw), "docker://")
	switch {
	case foldedPrefix:
		v.Classes = append(v.Classes, "model-skip/folded-docker-prefix")
	case sh.tildeWindows:
		v.Classes = append(v.Classes, "model-skip/docker-tilde-windows")
	case merr == nil && err != nil && mayReject(m, sh):
		// Inputs whose reading is inherently ambiguous (they are exactly the
		// supersets of the known-finding classes): rejecting them is a
		// legitimate repair, so a rejection is tolerated.
		v.Classes = append(v.Classes, "model-tolerated-rejection")
	case (merr == nil) != (err == nil):
		if merr == nil {
			v.Violation = fmt.Sprintf("Parse(%q, %v) rejected (%v) a string the documented grammar reads as %+v", raw, kind, err, *m)
		} else {
			v.Violation = fmt.Sprintf("Parse(%q, %v) accepted as %s a string the documented grammar rejects", raw, kind, render(u))
		}
		return v
	case merr == nil && !sameAsModel(u, m):
		v.Violation = fmt.Sprintf("Parse(%q, %v) = %s, documented grammar gives %+v", raw, kind, render(u), *m)
		return v
	}
	if err != nil {
		return v
	}

	v.Proto = protoName(u.Protocol)
	v.NonTrivial = u.Protocol == url.Protocol_SSH || u.Protocol == url.Protocol_Docker
	v.Classes = append(v.Classes, "parsed/"+v.Proto)
	if u.User != "" {
		v.Classes = append(v.Classes, "with-user")
	}
	if u.Port != 0 {
		v.Classes = append(v.Classes, "with-port")
	}
	if sh.portField {
		if strings.HasPrefix(sh.portText, "0") && u.Port != 0 {
			v.Classes = append(v.Classes, "port-leading-zeros")
		}
		if u.Port == 0 {
			v.Classes = append(v.Classes, "port-explicit-zero")
		}
	}
	if len(u.Environment) > 0 {
		v.Classes = append(v.Classes, "docker-env-locked")
	}
	if u.Protocol != url.Protocol_Local && !c.Forwarding {
		switch {
		case strings.HasPrefix(u.Path, "~"):
			v.Classes = append(v.Classes, "path/home-relative")
		case isWindowsPathModel(u.Path):
			v.Classes = append(v.Classes, "path/windows")
		case strings.HasPrefix(u.Path, "/"):
			v.Classes = append(v.Classes, "path/absolute")
		default:
			v.Classes = append(v.Classes, "path/relative")
		}
		if strings.Contains(u.Path, ":") {
			v.Classes = append(v.Classes, "path/with-colon")
		}
	}

	// (1) validity.
	if verr := u.EnsureValid(); verr != nil {
		v.Violation = fmt.Sprintf("Parse(%q, %v) = %s which is invalid: %v", raw, kind, render(u), verr)
		return v
	}

	// (2) round trip.
	text := u.Format("")
	u2, err2 := url.Parse(text, kind, c.First)
	if err2 != nil {
		v.Violation = fmt.Sprintf("Parse(%q, %v) = %s formats as %q which does not parse: %v", raw, kind, render(u), text, err2)
		return v
	}
	if !sameURL(u, u2) || !u.Equal(u2) || !u2.Equal(u) {
		v.Violation = fmt.Sprintf("Parse(%q, %v) = %s formats as %q which parses as %s", raw, kind, render(u), text, render(u2))
		return v
	}
	if text != string(c.Raw) {
		v.Classes = append(v.Classes, "format-differs-from-input")
	}
	// Equal must be an equality: a copy differing in exactly one field is not
	// Equal (otherwise "parses to an Equal URL" would mean little).
	for i, mutate := range perturbations {
		w := url.URL{Kind: u.Kind, Protocol: u.Protocol, User: u.User, Host: u.Host, Port: u.Port, Path: u.Path,
			Environment: u.Environment, Parameters: u.Parameters}
		mutate(&w)
		if u.Equal(&w) || w.Equal(u) {
			v.Violation = fmt.Sprintf("Parse(%q, %v) = %s is Equal to a URL differing in one field (perturbation %d): %s", raw, kind, render(u), i, render(&w))
			return v
		}
	}

	// (4) display form.
	want := text
	if u.Protocol == url.Protocol_Docker {
		for _, name := range dockerVariables {
			if val, ok := u.Environment[name]; ok {
				want += "|#|" + name + "=" + val
			}
		}
	}
	if got := u.Format("|#|"); got != want {
		v.Violation = fmt.Sprintf("Parse(%q, %v).Format(prefix) = %q, want %q", raw, kind, got, want)
		return v
	}
	return v
}

// perturbations each change exactly one field of a URL.
var perturbations = []func(*url.URL){
	func(w *url.URL) {
		if w.Kind == url.Kind_Forwarding {
			w.Kind = url.Kind_Synchronization
		} else {
			w.Kind = url.Kind_Forwarding
		}
	},
	func(w *url.URL) {
		if w.Protocol == url.Protocol_SSH {
			w.Protocol = url.Protocol_Docker
		} else {
			w.Protocol = url.Protocol_SSH
		}
	},
	func(w *url.URL) { w.User += "x" },
	func(w *url.URL) { w.Host += "x" },
	func(w *url.URL) { w.Port++ },
	func(w *url.URL) { w.Path += "x" },
	func(w *url.URL) {
		env := map[string]string{"DOCKER_HOST": "perturbed"}
		for k, val := range w.Environment {
			env[k] = val + "x"
		}
		w.Environment = env
	},
	func(w *url.URL) { w.Parameters = map[string]string{"context": "perturbed"} },
}
