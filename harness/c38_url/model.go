// Package c38_url checks C38: every endpoint URL produced by parsing user
// input is valid and survives Format -> Parse unchanged.
//
// This file is the independent side: a reference reading of the documented URL
// grammar (index/split based, written from the comments in pkg/url, sharing no
// code with it) and the classifiers of the known-finding classes.
package c38_url

import (
	"errors"
	"os"
	"os/user"
	"path"
	"strings"
)

// MURL is the model's idea of a parsed URL.
type MURL struct {
	Forwarding bool
	Proto      string // "local", "ssh", "docker"
	User, Host string
	Port       uint32
	Path       string
	Env        map[string]string
}

// shape carries facts about how the raw text decomposed; the known-class
// classifiers and the class counters are predicates over it.
type shape struct {
	proto        string
	hasUser      bool
	portField    bool   // an explicit port field was recognised
	portText     string // its digits
	rest         string // ssh: text after the port field (the path)
	dockerHead   string // docker: text between the prefix and the separator
	dockerTail   string // docker: separator and everything after it
	tildeWindows bool   // docker sync path of the form /~X:/ or /~X:\ (see judge)
}

var errModel = errors.New("rejected")

var forwardingProtocols = map[string]bool{"tcp": true, "tcp4": true, "tcp6": true, "unix": true, "npipe": true}

// splitForwarding reads "protocol:address" as documented in pkg/url/forwarding.
func splitForwarding(s string) (proto, addr string, ok bool) {
	i := strings.IndexByte(s, ':')
	if i < 0 {
		return "", "", false
	}
	proto, addr = s[:i], s[i+1:]
	if !forwardingProtocols[proto] || addr == "" {
		return "", "", false
	}
	return proto, addr, true
}

func isWindowsPathModel(s string) bool {
	if len(s) < 3 {
		return false
	}
	c := s[0] | 0x20
	return c >= 'a' && c <= 'z' && (s[0] < 0x80) && s[1] == ':' && (s[2] == '\\' || s[2] == '/')
}

const dockerPrefixLen = len("docker://")

func hasDockerPrefix(raw string) bool {
	return len(raw) >= dockerPrefixLen && strings.EqualFold(raw[:dockerPrefixLen], "docker://") && asciiOnly(raw[:dockerPrefixLen])
}

func asciiOnly(s string) bool {
	for i := 0; i < len(s); i++ {
		if s[i] >= 0x80 {
			return false
		}
	}
	return true
}

// classify decides which grammar a raw string belongs to (POSIX rules).
func classify(raw string, forwarding bool) string {
	if hasDockerPrefix(raw) {
		return "docker"
	}
	if !forwarding {
		colon, slash := strings.IndexByte(raw, ':'), strings.IndexByte(raw, '/')
		if colon >= 0 && (slash < 0 || colon < slash) {
			return "ssh"
		}
		return "local"
	}
	if _, _, ok := splitForwarding(raw); ok {
		return "local"
	}
	if strings.Count(raw, ":") >= 2 {
		return "ssh"
	}
	return "local"
}

// homes is the process's view of home directories, read independently of
// pkg/filesystem (the passwd database is read through os/user, which is
// standard library and part of the trusted base).
func homeOf(name string) (string, bool) {
	if name == "" {
		h := os.Getenv("HOME")
		return h, h != ""
	}
	if h, ok := homeCache[name]; ok {
		return h.dir, h.ok
	}
	u, err := user.Lookup(name)
	h := homeEntry{ok: err == nil}
	if err == nil {
		h.dir = u.HomeDir
	}
	if len(homeCache) < 100000 {
		homeCache[name] = h
	}
	return h.dir, h.ok
}

type homeEntry struct {
	dir string
	ok  bool
}

// homeCache memoises passwd lookups (the database does not change during a
// run; tests of one package run sequentially).
var homeCache = map[string]homeEntry{}

// normalizeModel is the documented meaning of filesystem.Normalize on POSIX:
// expand a leading ~ or ~user, make absolute against the working directory,
// clean.
func normalizeModel(p, cwd string) (string, bool) {
	if strings.HasPrefix(p, "~") {
		name, remaining := p[1:], ""
		if i := strings.IndexByte(p, '/'); i >= 0 {
			name, remaining = p[1:i], p[i+1:]
		}
		home, ok := homeOf(name)
		if !ok {
			return "", false
		}
		p = home + "/" + remaining
		if home == "" {
			p = remaining
		}
	}
	if !strings.HasPrefix(p, "/") {
		p = cwd + "/" + p
	}
	return path.Clean(p), true
}

// dockerVariables in the documented order.
var dockerVariables = []string{"DOCKER_HOST", "DOCKER_TLS", "DOCKER_TLS_VERIFY", "DOCKER_CERT_PATH", "DOCKER_CONTEXT", "DOCKER_CONFIG", "DOCKER_API_VERSION"}

func endpointPrefix(forwarding, first bool) string {
	switch {
	case !forwarding && first:
		return "MUTAGEN_ALPHA_"
	case !forwarding:
		return "MUTAGEN_BETA_"
	case first:
		return "MUTAGEN_SOURCE_"
	}
	return "MUTAGEN_DESTINATION_"
}

// modelEnv is the environment a Docker URL must lock in: for each Docker
// variable the endpoint-specific variant if set, else the general one if set.
func modelEnv(env map[string]string, forwarding, first bool) map[string]string {
	out := map[string]string{}
	for _, v := range dockerVariables {
		if val, ok := env[endpointPrefix(forwarding, first)+v]; ok {
			out[v] = val
		} else if val, ok := env[v]; ok {
			out[v] = val
		}
	}
	return out
}

// parseModel is the reference parse. It returns the decomposition facts even
// when the string is rejected.
func parseModel(raw string, forwarding, first bool, env map[string]string, cwd string) (*MURL, shape, error) {
	var sh shape
	if raw == "" {
		return nil, sh, errModel
	}
	sh.proto = classify(raw, forwarding)
	switch sh.proto {
	case "local":
		if !forwarding {
			p, ok := normalizeModel(raw, cwd)
			if !ok {
				return nil, sh, errModel
			}
			return &MURL{Proto: "local", Path: p}, sh, nil
		}
		proto, addr, ok := splitForwarding(raw)
		if !ok {
			return nil, sh, errModel
		}
		if proto == "unix" {
			p, ok := normalizeModel(addr, cwd)
			if !ok {
				return nil, sh, errModel
			}
			raw = "unix:" + p
		}
		return &MURL{Forwarding: true, Proto: "local", Path: raw}, sh, nil

	case "ssh":
		colon := strings.IndexByte(raw, ':')
		head, rest := raw[:colon], raw[colon+1:]
		u := &MURL{Forwarding: forwarding, Proto: "ssh"}
		if at := strings.IndexByte(head, '@'); at >= 0 {
			sh.hasUser = true
			u.User, u.Host = head[:at], head[at+1:]
			if u.User == "" {
				return nil, sh, errModel
			}
		} else {
			u.Host = head
		}
		if u.Host == "" {
			return nil, sh, errModel
		}
		// Optional port field: a run of ASCII digits followed by a colon.
		d := 0
		for d < len(rest) && rest[d] >= '0' && rest[d] <= '9' {
			d++
		}
		if d < len(rest) && rest[d] == ':' {
			sh.portField, sh.portText = true, rest[:d]
			rest = rest[d+1:]
			sh.rest = rest
			digits := strings.TrimLeft(sh.portText, "0")
			if sh.portText == "" || len(digits) > 5 {
				return nil, sh, errModel
			}
			var v uint32
			for i := 0; i < len(digits); i++ {
				v = v*10 + uint32(digits[i]-'0')
			}
			if v > 65535 {
				return nil, sh, errModel
			}
			u.Port = v
		} else {
			sh.rest = rest
		}
		u.Path = rest
		if !forwarding {
			if u.Path == "" {
				return nil, sh, errModel
			}
		} else if _, _, ok := splitForwarding(u.Path); !ok {
			return nil, sh, errModel
		}
		return u, sh, nil

	case "docker":
		body := raw[dockerPrefixLen:]
		sep := byte('/')
		if forwarding {
			sep = ':'
		}
		i := strings.IndexByte(body, sep)
		if i < 0 {
			sh.dockerHead = body
			return nil, sh, errModel
		}
		head, tail := body[:i], body[i:]
		sh.dockerHead, sh.dockerTail = head, tail
		u := &MURL{Forwarding: forwarding, Proto: "docker"}
		if at := strings.IndexByte(head, '@'); at >= 0 {
			sh.hasUser = true
			u.User, u.Host = head[:at], head[at+1:]
		} else {
			u.Host = head
		}
		if u.Host == "" {
			return nil, sh, errModel
		}
		if !forwarding {
			switch {
			case len(tail) > 1 && tail[1] == '~':
				u.Path = tail[1:]
				sh.tildeWindows = isWindowsPathModel(tail[2:])
			case isWindowsPathModel(tail[1:]):
				u.Path = tail[1:]
			default:
				u.Path = tail
			}
		} else {
			u.Path = tail[1:]
			if _, _, ok := splitForwarding(u.Path); !ok {
				return nil, sh, errModel
			}
		}
		u.Env = modelEnv(env, forwarding, first)
		return u, sh, nil
	}
	panic("unreachable")
}

// Known-finding classes (predicates over the raw text's decomposition, not
// over a failure message).
const (
	// ClassZeroPort: an SCP-style URL whose explicit port field has the value
	// zero and whose remaining text is read differently once the (unprinted)
	// zero port is gone: it starts with "digits:" (becomes a port), or the
	// formatted text "host:path" acquires the docker:// prefix.
	ClassZeroPort = "ssh-zero-port-reinterpreted"
	// ClassDockerEmptyUser: a Docker URL with an empty user ("docker://@...")
	// whose container part contains another '@'.
	ClassDockerEmptyUser = "docker-empty-user-at-in-container"
)

var classCanonical = map[string]Case{
	ClassZeroPort:        {Raw: []byte("host:0:80:x")},
	ClassDockerEmptyUser: {Raw: []byte("docker://@a@b/p")},
}

func knownClassOf(u *MURL, sh shape) string {
	switch sh.proto {
	case "ssh":
		if u == nil || !sh.portField || u.Port != 0 {
			return ""
		}
		d := 0
		for d < len(sh.rest) && sh.rest[d] >= '0' && sh.rest[d] <= '9' {
			d++
		}
		if d < len(sh.rest) && sh.rest[d] == ':' {
			return ClassZeroPort
		}
		if !sh.hasUser && hasDockerPrefix(u.Host+":"+sh.rest) {
			return ClassZeroPort
		}
	case "docker":
		if u != nil && strings.HasPrefix(sh.dockerHead, "@") && strings.Contains(sh.dockerHead[1:], "@") {
			return ClassDockerEmptyUser
		}
	}
	return ""
}

// mayReject marks accepted-by-the-model inputs that a repaired parser may
// legitimately refuse: an explicit port field of value zero (zero is not a
// port; it is also the "no port" value of the URL message) and a Docker URL
// with an explicitly empty user ("docker://@..."). Since the C36 repair the
// parser also refuses SSH users / hosts and Docker containers that begin with
// '-' (they would be read as options by ssh, scp and docker); which strings
// are accepted is not part of C38's statement.
func mayReject(u *MURL, sh shape) bool {
	switch sh.proto {
	case "ssh":
		if strings.HasPrefix(u.Host, "-") || strings.HasPrefix(u.User, "-") {
			return true
		}
		return sh.portField && u.Port == 0
	case "docker":
		if strings.HasPrefix(u.Host, "-") {
			return true
		}
		return strings.HasPrefix(sh.dockerHead, "@")
	}
	return false
}
