package c38_url

import (
	"fmt"
	"strings"
	"testing"

	"pgregory.net/rapid"

	"verif/kit/ev"
)

const prop = "C38"

const rule = "non-trivial: the raw string parses as an SSH or Docker URL (local URLs and rejected strings are counted but trivial)"

// listedKnown returns the known-finding classes currently listed as open.
func listedKnown() map[string]ev.Finding {
	out := map[string]ev.Finding{}
	for _, class := range []string{ClassZeroPort, ClassDockerEmptyUser} {
		if f, ok := ev.KnownClass(prop, class); ok {
			out[class] = f
		}
	}
	return out
}

// classOf is the cheap pre-classification used to exclude listed classes by
// construction (model only, the code under test is not called).
func classOf(c *Case) string {
	m, sh, _ := parseModel(string(c.Raw), c.Forwarding, c.First, c.Env, cwd)
	return knownClassOf(m, sh)
}

// ---------------------------------------------------------------- generator

var (
	users      = []string{"", "", "", "user", "u", "Ünï", "a.b-c_d", "0", "docker", "-o", "a@b", " ", "us er", "tcp", "DOCKER"}
	hosts      = []string{"host", "host", "h", "example.com", "192.168.0.1", "[::1]", "tcp", "unix", "docker", "DOCKER", "dOcker", "C", "c", "a@b", "", "0", "22", "hôst", "-h", "h.", "a b"}
	ports      = []string{"", "0", "00", "000", "22", "022", "0022", "65535", "065535", "65536", "99999", "100000", "18446744073709551616", "80", "1", "8080"}
	syncPaths  = []string{"/", "/abs/dir", "/a:b", "~", "~/x", "~user/x", "~root", "rel", "rel/x", "./x", "C:\\x", "C:/x", "c:x", "C:", "80:x", "80:/x", "0:x", "00:", ":x", ":", "22:", "8080", "//x/y", "//", "/~", "/~/x", "", " ", "a:b/c", "/ü/ñ", "\\x", "x:1:2", "~C:/x", "/C:\\x", "1:2:3", "7", ":7:x"}
	endpoints  = []string{"tcp:localhost:8080", "tcp::80", "tcp4:0.0.0.0:0", "tcp6:[::1]:22", "unix:/var/run/s.sock", "unix:rel.sock", "unix:~/s.sock", "unix:~root/s", "unix:~nosuchuserzz/s", "unix:/a/../b//c/", "npipe:\\\\.\\pipe\\x", "tcp:", "udp:x:1", "tcp", "80:tcp:x", "unix:", "TCP:x:1", ":tcp:x", "tcp:a@b:1", "tcp:0:1", "unix:0:x"}
	prefixes   = []string{"docker://", "docker://", "docker://", "DOCKER://", "Docker://", "dOcKeR://", "docker:/", "docker:", "doc\u212Aer://"}
	containers = []string{"c", "c", "container_1", "a@b", "a:b", "a/b", "", "0", "my.container", "Ctr", "-c", "ü", "@", "b@"}
	dockerTail = []string{"/x", "/", "/~", "/~/x", "/~u/x", "/C:\\x", "/c:/x", "/C:x", "/~C:/x", "/~c:\\", "//x", "", "/x:y", "/x@y", "/~~", "/ ", "/0:1"}
	localPaths = []string{"/abs", "/", "rel", "~", "~/x", "~root/x", "~nosuchuserzz/x", ".", "..", "../x", "/a/../b", "/a//b/", "./a:b", "a/b:c", "/a:b", "~/a:b", " ", "//x", "/docker://x", "./docker://c/p", "/ü", "~/", "~root", "/a/./b/.."}
	soup       = []string{"a", "b", "@", ":", "/", "0", "7", "22", "~", "\\", ".", "-", " ", "tcp:", "unix:", "npipe:", "docker://", "C:", "ü", "\xff", "\x00", "::", "@@"}
	envValues  = []string{"", "tcp://h:1", "unix:///var/run/docker.sock", "1", "ctx", "/cfg dir"}
)

func pick(rt *rapid.T, label string, from []string) string {
	return rapid.SampledFrom(from).Draw(rt, label)
}

// component draws from the curated list or, one time in five, a short string
// over the separator-heavy alphabet.
func component(rt *rapid.T, label string, from []string) string {
	if rapid.IntRange(0, 4).Draw(rt, label+".free") == 0 {
		n := rapid.IntRange(0, 3).Draw(rt, label+".n")
		var b strings.Builder
		for i := 0; i < n; i++ {
			b.WriteString(pick(rt, label+".tok", soup[:13]))
		}
		return b.String()
	}
	return pick(rt, label, from)
}

func genCase(rt *rapid.T) (*Case, string) {
	c := &Case{}
	c.Forwarding = rapid.Bool().Draw(rt, "forwarding")
	c.First = rapid.Bool().Draw(rt, "first")
	template := rapid.SampledFrom([]string{"ssh", "ssh", "ssh", "docker", "docker", "local", "soup"}).Draw(rt, "template")
	var raw string
	switch template {
	case "ssh":
		if user := component(rt, "user", users); user != "" {
			raw = user + "@"
		}
		raw += component(rt, "host", hosts) + ":"
		if rapid.Bool().Draw(rt, "hasPort") {
			raw += component(rt, "port", ports) + ":"
		}
		if c.Forwarding && rapid.IntRange(0, 5).Draw(rt, "crossKind") != 0 {
			raw += component(rt, "endpoint", endpoints)
		} else {
			raw += component(rt, "path", syncPaths)
		}
	case "docker":
		raw = pick(rt, "prefix", prefixes)
		switch rapid.IntRange(0, 5).Draw(rt, "userForm") {
		case 0:
			raw += "@" // explicit empty user
		case 1, 2:
			raw += component(rt, "user", users[3:]) + "@"
		}
		raw += component(rt, "container", containers)
		if c.Forwarding && rapid.IntRange(0, 5).Draw(rt, "crossKind") != 0 {
			raw += ":" + component(rt, "endpoint", endpoints)
		} else {
			raw += component(rt, "tail", dockerTail)
		}
		if rapid.IntRange(0, 2).Draw(rt, "withEnv") == 0 {
			c.Env = map[string]string{}
			n := rapid.IntRange(1, 4).Draw(rt, "env.n")
			for i := 0; i < n; i++ {
				name := pick(rt, "env.var", dockerVariables)
				scope := pick(rt, "env.scope", []string{"", "", "MUTAGEN_ALPHA_", "MUTAGEN_BETA_", "MUTAGEN_SOURCE_", "MUTAGEN_DESTINATION_"})
				c.Env[scope+name] = pick(rt, "env.val", envValues)
			}
		}
	case "local":
		if c.Forwarding {
			raw = component(rt, "endpoint", endpoints)
		} else {
			raw = component(rt, "local", localPaths)
		}
	case "soup":
		n := rapid.IntRange(1, 8).Draw(rt, "soup.n")
		for i := 0; i < n; i++ {
			raw += pick(rt, "soup.tok", soup)
		}
	}
	// Token-level noise on top of a well-formed string.
	if template != "soup" && rapid.IntRange(0, 3).Draw(rt, "noise") == 0 {
		edits := rapid.IntRange(1, 2).Draw(rt, "noise.n")
		for i := 0; i < edits; i++ {
			pos := rapid.IntRange(0, len(raw)).Draw(rt, "noise.pos")
			switch rapid.IntRange(0, 2).Draw(rt, "noise.op") {
			case 0:
				raw = raw[:pos] + pick(rt, "noise.tok", soup) + raw[pos:]
			case 1:
				if pos < len(raw) {
					raw = raw[:pos] + raw[pos+1:]
				}
			case 2:
				if pos < len(raw) {
					raw = raw[:pos] + pick(rt, "noise.tok", soup) + raw[pos+1:]
				}
			}
		}
		template += "+noise"
	}
	c.Raw = []byte(raw)
	return c, template
}

// ------------------------------------------------------------------- tests

func TestRandomGrammar(t *testing.T) {
	if ev.ReplayPath() != "" {
		t.Skip("replaying")
	}
	rec := ev.New(t, prop, "grammar-random", "rapid: strings assembled from a URL grammar (user, host, port incl. leading zeros / zero / out of range, absolute / ~ / ~user / relative / Windows / colon-digit paths, forwarding endpoints, docker:// in mixed case with users, containers, Docker environment variables per side) plus token noise and token soup, both kinds, both positions; "+rule)
	known := listedKnown()
	ev.Check(t, rec, 60000, 1500000, func(rt *rapid.T) {
		c, template := genCase(rt)
		if cls := classOf(c); cls != "" {
			if _, listed := known[cls]; listed {
				rec.Excluded(cls)
				return
			}
		}
		v := judge(c)
		rec.Eval()
		if v.Violation != "" {
			ev.Failf(rt, rec, c.withText(), "%s", v.Violation)
		}
		rec.Class("template/" + template)
		if c.Forwarding {
			rec.Class("kind/forwarding")
		} else {
			rec.Class("kind/synchronization")
		}
		for _, cl := range v.Classes {
			rec.Class(cl)
		}
		if v.NonTrivial {
			rec.Class("nontrivial")
			rec.NonTrivial(ev.Hash(c.fingerprintParts()...))
			if rec.WantSample() {
				rec.Sample(c.withText())
			}
		}
	})
}

// tokenAlphabets are the alphabets of the exhaustive part. Every token is a
// string no other token sequence can spell, so distinct sequences are distinct
// strings.
var tokenAlphabets = map[bool][]string{
	false: {"a", "@", ":", "/", "0", "7", "~", "\\"},
	true:  {"a", "@", ":", "/", "0", "tcp:", "unix:", "~"},
}

func TestExhaustiveTokens(t *testing.T) {
	if ev.ReplayPath() != "" {
		t.Skip("replaying")
	}
	rec := ev.New(t, prop, "token-strings-exhaustive", "every string of up to N tokens over a per-kind alphabet of separators, digits, a letter, ~ and (forwarding) endpoint protocols, bare and behind docker://; "+rule)
	n := ev.Pick(6, 7)
	rec.SetExhaustive(fmt.Sprintf("kinds {synchronization, forwarding}; bare strings of 1..%d tokens and docker:// + 1..%d tokens; alphabets %q / %q; no Docker environment variables", n, n-1, tokenAlphabets[false], tokenAlphabets[true]))
	known := listedKnown()
	classes := map[string]uint64{}
	var evals, nts uint64
	var failure *Case
	var failureMsg string
	for _, forwarding := range []bool{false, true} {
		alphabet := tokenAlphabets[forwarding]
		for _, prefix := range []string{"", "docker://"} {
			limit := n
			if prefix != "" {
				limit = n - 1
			}
			idx := make([]int, 0, limit)
			var walk func(cur string)
			walk = func(cur string) {
				if failure != nil {
					return
				}
				if len(idx) > 0 {
					c := &Case{Raw: []byte(cur), Forwarding: forwarding, First: len(idx)%2 == 0}
					skip := false
					if cls := classOf(c); cls != "" {
						if _, listed := known[cls]; listed {
							classes["excluded-known/"+cls]++
							skip = true
						}
					}
					if !skip {
						v := judge(c)
						evals++
						if v.Violation != "" {
							failure, failureMsg = c, v.Violation
							return
						}
						for _, cl := range v.Classes {
							classes[cl]++
						}
						if v.NonTrivial {
							nts++
							if len(idx) == limit && nts%9973 == 1 {
								rec.Sample(c.withText())
							}
						}
					}
				}
				if len(idx) == limit {
					return
				}
				for i, tok := range alphabet {
					idx = append(idx, i)
					walk(cur + tok)
					idx = idx[:len(idx)-1]
				}
			}
			walk(prefix)
		}
	}
	rec.EvalN(evals)
	rec.NonTrivialDistinct(nts)
	for k, v := range classes {
		rec.ClassN(k, v)
	}
	if failure != nil {
		ev.FailTB(t, rec, failure.withText(), "%s", failureMsg)
	}
}

// TestKnownFindings re-executes the canonical instance of every class that is
// listed as known, prints the KNOWN-FINDING line while it still fails and
// notes when it stopped failing.
func TestKnownFindings(t *testing.T) {
	if ev.ReplayPath() != "" {
		t.Skip("replaying")
	}
	known := listedKnown()
	if len(known) == 0 {
		t.Skip("no known findings listed for C38")
	}
	rec := ev.New(t, prop, "known-findings", "canonical instance of each listed known-finding class")
	for class, f := range known {
		c := classCanonical[class]
		if got := classOf(&c); got != class {
			t.Fatalf("canonical instance of %s classifies as %q", class, got)
		}
		v := judge(&c)
		rec.Eval()
		if v.Violation != "" {
			rec.ReportKnown(f)
			rec.Class("still-failing/" + class)
		} else {
			rec.Note("no-longer-reproduces/"+class, fmt.Sprintf("%q now satisfies the property; the entry can be marked fixed", c.Raw))
		}
	}
}

func TestReplay(t *testing.T) {
	if ev.ReplayPath() == "" {
		t.Skip("no replay requested")
	}
	var c Case
	if _, err := ev.LoadReplay(ev.ReplayPath(), &c); err != nil {
		t.Fatalf("cannot load replay: %v", err)
	}
	rec := ev.New(t, prop, "replay", "replay of a saved case")
	v := judge(&c)
	rec.Eval()
	if v.Violation != "" {
		ev.FailTB(t, rec, c.withText(), "%s", v.Violation)
	}
}

// fuzzEnv maps the fuzzer's selector byte to a Docker environment.
func fuzzEnv(sel uint8) map[string]string {
	if sel&0x0f == 0 {
		return nil
	}
	env := map[string]string{}
	if sel&1 != 0 {
		env["DOCKER_HOST"] = "tcp://general:1"
	}
	if sel&2 != 0 {
		env["MUTAGEN_ALPHA_DOCKER_HOST"] = "tcp://alpha:1"
		env["MUTAGEN_SOURCE_DOCKER_HOST"] = "tcp://source:1"
	}
	if sel&4 != 0 {
		env["MUTAGEN_BETA_DOCKER_CONTEXT"] = "beta-ctx"
		env["MUTAGEN_DESTINATION_DOCKER_CONTEXT"] = "dest-ctx"
	}
	if sel&8 != 0 {
		env["DOCKER_TLS_VERIFY"] = ""
	}
	return env
}

// FuzzC38URL is the native fuzz target of the thorough tier; the whole oracle
// (validity, round trip, reference grammar, display form) runs inside it.
func FuzzC38URL(f *testing.F) {
	for _, s := range []string{
		"/abs/path", "~/x", "rel/x", "user@host:22:/srv/x", "host:~/x", "host:0022:rel", "h:C:\\x",
		"docker://container/path", "DOCKER://user@c/~/x", "docker://c/C:\\x",
		"tcp:localhost:8080", "unix:rel.sock", "npipe:\\\\.\\pipe\\x",
		"user@host:22:tcp:localhost:80", "host:unix:/s.sock", "docker://c:tcp::80", "docker://u@c:unix:/s",
	} {
		for _, fw := range []bool{false, true} {
			f.Add(s, fw, true, uint8(0))
		}
	}
	f.Add("docker://u@c/x", false, false, uint8(7))
	known := listedKnown()
	f.Fuzz(func(t *testing.T, raw string, forwarding, first bool, envSel uint8) {
		c := &Case{Raw: []byte(raw), Forwarding: forwarding, First: first, Env: fuzzEnv(envSel)}
		if cls := classOf(c); cls != "" {
			if _, listed := known[cls]; listed {
				return
			}
		}
		if v := judge(c); v.Violation != "" {
			t.Fatalf("C38 violated: %s", v.Violation)
		}
	})
}
