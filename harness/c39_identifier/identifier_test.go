package c39_identifier

import (
	"bytes"
	"crypto/rand"
	"encoding/hex"
	"fmt"
	"io"
	"math/big"
	"strings"
	"testing"

	"pgregory.net/rapid"

	"github.com/mutagen-io/mutagen/pkg/encoding"
	"github.com/mutagen-io/mutagen/pkg/identifier"
	"github.com/mutagen-io/mutagen/pkg/selection"

	"verif/kit/ev"
)

const prop = "C39"

// Case is one input; it is what replay files hold.
type Case struct {
	// Kind: "new" (identifier.New with an injected random value), "string"
	// (IsValid / Truncated on an arbitrary string), "name" (EnsureNameValid).
	Kind   string `json:"kind"`
	Prefix string `json:"prefix,omitempty"`
	Value  string `json:"value_hex,omitempty"` // 32 injected bytes
	Str    []byte `json:"str,omitempty"`
	Text   string `json:"text,omitempty"`
}

// scriptedReader hands out the injected value and counts what was consumed.
type scriptedReader struct {
	data     []byte
	consumed int
	short    bool
}

func (r *scriptedReader) Read(p []byte) (int, error) {
	n := copy(p, r.data)
	r.data = r.data[n:]
	r.consumed += n
	if n < len(p) {
		// Never let crypto/rand see an error (it aborts the process); pad
		// with 0xA5 and remember that more than the script was requested.
		r.short = true
		for i := n; i < len(p); i++ {
			p[i] = 0xA5
		}
	}
	return len(p), nil
}

// newWith calls identifier.New while crypto/rand.Reader yields value.
func newWith(prefix string, value []byte) (id string, err error, r *scriptedReader) {
	r = &scriptedReader{data: append([]byte(nil), value...)}
	saved := rand.Reader
	rand.Reader = r
	defer func() { rand.Reader = saved }()
	id, err = identifier.New(prefix)
	return
}

// checkIdentifier is the format / validation / truncation oracle shared by the
// scripted and the real-reader parts.
func checkIdentifier(prefix, id string) string {
	if len(id) != idLength {
		return fmt.Sprintf("identifier %q has length %d, want %d", id, len(id), idLength)
	}
	if id[:prefixLength] != prefix || id[prefixLength] != '_' {
		return fmt.Sprintf("identifier %q does not start with %q", id, prefix+"_")
	}
	if !isIdentifier(id) {
		return fmt.Sprintf("identifier %q is not prefix_ followed by %d base-62 digits", id, bodyLength)
	}
	if !identifier.IsValid(id) {
		return fmt.Sprintf("identifier %q is refused by identifier.IsValid", id)
	}
	tr := identifier.Truncated(id)
	if len(tr) != truncLength || !strings.HasPrefix(id, tr) {
		return fmt.Sprintf("Truncated(%q) = %q is not its prefix of length %d", id, tr, truncLength)
	}
	if err := selection.EnsureNameValid(id); err == nil {
		return fmt.Sprintf("identifier %q is accepted as a session name", id)
	}
	return ""
}

var two256 = new(big.Int).Lsh(big.NewInt(1), 256)
var pow62_42 = new(big.Int).Exp(big.NewInt(62), big.NewInt(42), nil)

// judgeNew decides one identifier.New call with an injected value.
func judgeNew(c *Case) (violation string, nontrivial bool, id string) {
	value, err := hex.DecodeString(c.Value)
	if err != nil || len(value) != valueLength {
		return "bad case: value must be 32 bytes of hex", false, ""
	}
	id, nerr, r := newWith(c.Prefix, value)
	if !validPrefix(c.Prefix) {
		if nerr == nil {
			return fmt.Sprintf("New(%q) accepted an invalid prefix and returned %q", c.Prefix, id), false, id
		}
		return "", false, ""
	}
	if nerr != nil {
		return fmt.Sprintf("New(%q) failed: %v", c.Prefix, nerr), false, ""
	}
	if msg := checkIdentifier(c.Prefix, id); msg != "" {
		return fmt.Sprintf("value %s: %s", c.Value, msg), false, id
	}
	if r.consumed < valueLength {
		return fmt.Sprintf("New(%q) drew only %d random bytes; the documented collision resistance needs %d", c.Prefix, r.consumed, valueLength), false, id
	}
	if r.short {
		// More randomness than the script holds was requested: the injected
		// value no longer determines the identifier, only the format is judged.
		return "", false, id
	}
	want := new(big.Int).SetBytes(value)
	got, ok := decode62(id[prefixLength+1:])
	if !ok || got.Cmp(want) != 0 {
		return fmt.Sprintf("value %s gives identifier %q whose base-62 body decodes to %x (two random values can then share an identifier)", c.Value, id, got), false, id
	}
	// Non-trivial: the body needs left padding (value below 62^42).
	return "", want.Cmp(pow62_42) < 0, id
}

// judgeString decides IsValid / Truncated on an arbitrary string.
func judgeString(c *Case) (violation string, nontrivial bool) {
	s := string(c.Str)
	modern, legacy := isIdentifier(s), isLegacyIdentifier(s)
	if got := identifier.IsValid(s); got != (modern || legacy) {
		return fmt.Sprintf("IsValid(%q) = %v, documented formats say %v", s, got, modern || legacy), false
	}
	want := ""
	switch {
	case modern:
		want = s[:truncLength]
	case legacy:
		want = s[:8]
	}
	if got := identifier.Truncated(s); got != want {
		return fmt.Sprintf("Truncated(%q) = %q, want %q", s, got, want), false
	}
	return "", modern || legacy
}

// judgeName decides EnsureNameValid on one name.
func judgeName(c *Case) (violation string, nontrivial bool, class string) {
	name := string(c.Str)
	rule := judgeNameRule(name)
	err := selection.EnsureNameValid(name)
	switch {
	case rule.mustReject != "" && err == nil:
		return fmt.Sprintf("EnsureNameValid(%q) accepts the name although %s", name, rule.mustReject), false, ""
	case rule.mustAccept && err != nil:
		return fmt.Sprintf("EnsureNameValid(%q) = %v for a plain letters/numbers/dashes name", name, err), false, ""
	}
	if identifier.IsValid(name) && err == nil {
		return fmt.Sprintf("EnsureNameValid(%q) accepts a string identifier.IsValid accepts", name), false, ""
	}
	switch {
	case rule.mustReject != "":
		class = "must-reject: " + rule.mustReject
	case rule.mustAccept:
		class = "must-accept"
	case err == nil:
		class = "unconstrained/accepted"
	default:
		class = "unconstrained/rejected"
	}
	// Non-trivial: identifier-, UUID- or reserved-word-shaped names.
	nt := isIdentifier(name) || dashedUUID(name, true) || name == "defaults"
	return "", nt, class
}

func judge(c *Case) (string, bool) {
	switch c.Kind {
	case "new":
		v, nt, _ := judgeNew(c)
		return v, nt
	case "string":
		return judgeString(c)
	case "name":
		v, nt, _ := judgeName(c)
		return v, nt
	}
	return "bad case kind " + c.Kind, false
}

// ---------------------------------------------------------------- scripted

// structuredValues enumerates the 32-byte values of the bounded part.
func structuredValues() (values [][]byte, classes []string) {
	add := func(class string, v *big.Int) {
		if v.Sign() < 0 || v.Cmp(two256) >= 0 {
			return
		}
		b := make([]byte, valueLength)
		v.FillBytes(b)
		values = append(values, b)
		classes = append(classes, class)
	}
	one := big.NewInt(1)
	// k leading zero bytes, then a chosen first byte, then a fill byte; each
	// with its two neighbours.
	for k := 0; k <= valueLength; k++ {
		for _, first := range []byte{0x01, 0x3d, 0x3e, 0x80, 0xff} {
			for _, fill := range []byte{0x00, 0x01, 0xff} {
				b := make([]byte, valueLength)
				if k < valueLength {
					b[k] = first
					for i := k + 1; i < valueLength; i++ {
						b[i] = fill
					}
				}
				v := new(big.Int).SetBytes(b)
				class := fmt.Sprintf("leading-zero-bytes/%02d", k)
				add(class, v)
				add(class+"/neighbour", new(big.Int).Sub(v, one))
				add(class+"/neighbour", new(big.Int).Add(v, one))
				if k == valueLength {
					break
				}
			}
			if k == valueLength {
				break
			}
		}
	}
	// Powers of 62 (where the base-62 length changes) and of 256, +-1.
	for e := 0; e <= 43; e++ {
		p := new(big.Int).Exp(big.NewInt(62), big.NewInt(int64(e)), nil)
		for d := int64(-2); d <= 2; d++ {
			add("around-power-of-62", new(big.Int).Add(p, big.NewInt(d)))
		}
	}
	for e := 0; e <= 32; e++ {
		p := new(big.Int).Lsh(one, uint(8*e))
		for d := int64(-2); d <= 2; d++ {
			add("around-power-of-256", new(big.Int).Add(p, big.NewInt(d)))
		}
	}
	add("maximum", new(big.Int).Sub(two256, one))
	return
}

var validPrefixes = []string{identifier.PrefixSynchronization, identifier.PrefixForwarding, identifier.PrefixProject, identifier.PrefixPrompter, "aaaa", "zzzz"}
var invalidPrefixes = []string{"", "a", "abc", "abcde", "syncx", "ABCD", "Sync", "abc1", "ab_c", "sync_", "abé", "a\x00bc", "abc ", " abc", "ab-c", "abc\n", "\xffabc", "ａｂ", "日本", "{abc", "`abc", "zz{z"}

func TestScriptedValues(t *testing.T) {
	if ev.ReplayPath() != "" {
		t.Skip("replaying")
	}
	rec := ev.New(t, prop, "scripted-random-values", "identifier.New with crypto/rand.Reader replaced by a scripted reader: every value of the structured set (k leading zero bytes x first byte x fill, neighbours, around powers of 62 and 256) x prefixes; non-trivial: the base-62 body needs left padding (value < 62^42)")
	rec.SetExhaustive("k = 0..32 leading zero bytes x first byte {01,3d,3e,80,ff} x fill {00,01,ff} with v-1, v+1; 62^e + {-2..2}, e = 0..43; 256^e + {-2..2}; 2^256-1; x 6 valid prefixes; 22 invalid prefixes")
	if msg := alphabetProblem(); msg != "" {
		ev.FailTB(t, rec, &Case{Kind: "alphabet", Text: alphabet62}, "%s: %q", msg, alphabet62)
	}
	values, classes := structuredValues()
	var nts uint64
	for _, prefix := range validPrefixes {
		byID := map[string]string{}
		byValue := map[string]string{}
		for i, value := range values {
			c := &Case{Kind: "new", Prefix: prefix, Value: hex.EncodeToString(value)}
			v, nt, id := judgeNew(c)
			rec.Eval()
			if v != "" {
				ev.FailTB(t, rec, c, "%s", v)
			}
			if prev, ok := byValue[c.Value]; ok {
				if prev != id {
					ev.FailTB(t, rec, c, "the same value gave two identifiers %q and %q", prev, id)
				}
				continue
			}
			byValue[c.Value] = id
			if other, ok := byID[id]; ok {
				ev.FailTB(t, rec, c, "values %s and %s share the identifier %q", other, c.Value, id)
			}
			byID[id] = c.Value
			rec.Class(classes[i])
			if nt {
				nts++
				rec.Class("padded")
				if i%97 == 0 {
					rec.Sample(map[string]string{"prefix": prefix, "value": c.Value, "identifier": id})
				}
			}
		}
	}
	rec.NonTrivialDistinct(nts)
	zero := strings.Repeat("00", valueLength)
	for _, prefix := range invalidPrefixes {
		c := &Case{Kind: "new", Prefix: prefix, Value: zero}
		v, _, _ := judgeNew(c)
		rec.Eval()
		rec.Class("invalid-prefix")
		if v != "" {
			ev.FailTB(t, rec, c, "%s", v)
		}
	}
}

func TestRandomValues(t *testing.T) {
	if ev.ReplayPath() != "" {
		t.Skip("replaying")
	}
	rec := ev.New(t, prop, "injected-random-values", "rapid: random 32-byte values with a random number of leading zero bytes and small/large leading byte, random 4-letter prefix (1 in 8 invalid), injected through crypto/rand.Reader; non-trivial: body needs left padding")
	letters := []rune("abcdefghijklmnopqrstuvwxyz")
	junk := []rune("abcxyzABZ019_-é \x00")
	ev.Check(t, rec, 30000, 2000000, func(rt *rapid.T) {
		value := make([]byte, valueLength)
		k := 0
		if rapid.Bool().Draw(rt, "structured") {
			k = rapid.IntRange(0, valueLength).Draw(rt, "zeros")
		}
		tail := rapid.SliceOfN(rapid.Byte(), valueLength-k, valueLength-k).Draw(rt, "tail")
		copy(value[k:], tail)
		if k < valueLength && rapid.Bool().Draw(rt, "smallLead") {
			value[k] = byte(rapid.IntRange(0, 3).Draw(rt, "lead"))
		}
		var prefix string
		if rapid.IntRange(0, 7).Draw(rt, "badPrefix") == 0 {
			prefix = rapid.StringOfN(rapid.SampledFrom(junk), 0, 6, -1).Draw(rt, "prefix")
		} else {
			prefix = rapid.StringOfN(rapid.SampledFrom(letters), 4, 4, -1).Draw(rt, "prefix")
		}
		c := &Case{Kind: "new", Prefix: prefix, Value: hex.EncodeToString(value)}
		v, nt, id := judgeNew(c)
		rec.Eval()
		if v != "" {
			ev.Failf(rt, rec, c, "%s", v)
		}
		if !validPrefix(prefix) {
			rec.Class("invalid-prefix")
			return
		}
		lead := 0
		for lead < valueLength && value[lead] == 0 {
			lead++
		}
		switch {
		case lead == 0:
			rec.Class("leading-zero-bytes/0")
		case lead < 4:
			rec.Class("leading-zero-bytes/1-3")
		case lead < valueLength:
			rec.Class("leading-zero-bytes/4-31")
		default:
			rec.Class("leading-zero-bytes/32")
		}
		if nt {
			rec.Class("padded")
			rec.NonTrivial(ev.Hash(c.Prefix, c.Value))
			if rec.WantSample() {
				rec.Sample(map[string]string{"prefix": prefix, "value": c.Value, "identifier": id})
			}
		}
	})
}

// TestRealReader draws identifiers from the real random source.
func TestRealReader(t *testing.T) {
	if ev.ReplayPath() != "" {
		t.Skip("replaying")
	}
	rec := ev.New(t, prop, "real-random-source", "identifier.New with the real crypto/rand.Reader: format, validation, truncation, body < 2^256, pairwise distinct; non-trivial: the body starts with a padding zero")
	n := ev.Pick(100000, 2000000)
	seen := make(map[string]struct{}, n)
	for i := 0; i < n; i++ {
		prefix := validPrefixes[i%4]
		id, err := identifier.New(prefix)
		rec.Eval()
		c := &Case{Kind: "string", Str: []byte(id), Text: id}
		if err != nil {
			ev.FailTB(t, rec, c, "New(%q) failed: %v", prefix, err)
		}
		if msg := checkIdentifier(prefix, id); msg != "" {
			ev.FailTB(t, rec, c, "%s", msg)
		}
		body, _ := decode62(id[prefixLength+1:])
		if body.Cmp(two256) >= 0 {
			ev.FailTB(t, rec, c, "identifier %q encodes a value of more than 32 bytes", id)
		}
		if _, dup := seen[id]; dup {
			ev.FailTB(t, rec, c, "identifier %q was generated twice in %d draws", id, i+1)
		}
		seen[id] = struct{}{}
		if id[prefixLength+1] == '0' {
			rec.Class("padded")
			rec.NonTrivial(ev.Hash(id))
			if rec.WantSample() {
				rec.Sample(id)
			}
		}
	}
	rec.Note("identifiers_generated", n)
	rec.Note("all_distinct", true)
}

// ------------------------------------------------------------------- names

var uuidSamples = []string{
	"deadbeef-dead-beef-dead-beefdeadbeef", "a0000000-0000-0000-0000-000000000000", "ffffffff-ffff-ffff-ffff-ffffffffffff",
	"c9bf9e57-1685-4c89-bafb-ff5af830be8a", "ab12cd34-ef56-ab78-cd90-ef12ab34cd56",
}

func genIdentifierShaped(rt *rapid.T) string {
	var id string
	if rapid.Bool().Draw(rt, "legacy") {
		id = rapid.SampledFrom(uuidSamples).Draw(rt, "uuid")
		if rapid.Bool().Draw(rt, "digitFirst") {
			id = "0" + id[1:]
		}
	} else {
		body := make([]byte, bodyLength)
		for i := range body {
			body[i] = alphabet62[rapid.IntRange(0, 61).Draw(rt, "digit")]
		}
		if rapid.Bool().Draw(rt, "padded") {
			k := rapid.IntRange(1, bodyLength).Draw(rt, "pad")
			copy(body, strings.Repeat("0", k))
		}
		id = rapid.SampledFrom(validPrefixes).Draw(rt, "prefix") + "_" + string(body)
	}
	return id
}

var spoilers = []string{"_", "-", "0", "a", "A", "g", "G", "é", " ", "\n", "\x00", "\xff", "٣", "{", "}", ":", ".", "/"}

// spoil applies up to two small edits.
func spoil(rt *rapid.T, s string) string {
	n := rapid.IntRange(0, 2).Draw(rt, "edits")
	for i := 0; i < n; i++ {
		pos := rapid.IntRange(0, len(s)).Draw(rt, "pos")
		tok := rapid.SampledFrom(spoilers).Draw(rt, "tok")
		switch rapid.IntRange(0, 3).Draw(rt, "op") {
		case 0:
			s = s[:pos] + tok + s[pos:]
		case 1:
			if pos < len(s) {
				s = s[:pos] + s[pos+1:]
			}
		case 2:
			if pos < len(s) {
				s = s[:pos] + tok + s[pos+1:]
			}
		case 3:
			if pos < len(s) {
				s = s[:pos] + strings.ToUpper(s[pos:pos+1]) + s[pos+1:]
			}
		}
	}
	return s
}

func TestIdentifierStrings(t *testing.T) {
	if ev.ReplayPath() != "" {
		t.Skip("replaying")
	}
	rec := ev.New(t, prop, "validation-and-truncation", "rapid: identifier- and legacy-UUID-shaped strings with 0-2 edits (insert/delete/replace by separators, non-base-62, non-ASCII, newline; upper-casing); IsValid and Truncated against the documented formats; non-trivial: the string is a valid identifier")
	ev.Check(t, rec, 30000, 1500000, func(rt *rapid.T) {
		s := spoil(rt, genIdentifierShaped(rt))
		c := &Case{Kind: "string", Str: []byte(s), Text: fmt.Sprintf("%q", s)}
		v, nt := judgeString(c)
		rec.Eval()
		if v != "" {
			ev.Failf(rt, rec, c, "%s", v)
		}
		switch {
		case isIdentifier(s):
			rec.Class("valid/modern")
		case isLegacyIdentifier(s):
			rec.Class("valid/legacy")
		default:
			rec.Class("invalid")
		}
		if nt {
			rec.NonTrivial(ev.Hash(s))
			if rec.WantSample() {
				rec.Sample(s)
			}
		}
	})
}

var nameAtoms = []string{"a", "b", "z", "A", "Z", "é", "ß", "я", "日", "語", "ا", "0", "7", "٣", "²", "Ⅷ", "-", "-", "_", " ", ".", "/", ":", "{", "}", "\x00", "\xff", "\n", "🙂", "́"}
var nameWords = []string{"", "defaults", "Defaults", "DEFAULTS", "defaults-", "default", "defaults0", "-defaults", "web", "my-session", "api-2", "x", "日本語", "été-2024", "a--b", "a-", "-a", "0a", "a_b", "sync", "sync_", "urn", "proj-1-2-3"}

func genName(rt *rapid.T) string {
	switch rapid.IntRange(0, 7).Draw(rt, "form") {
	case 0:
		return rapid.SampledFrom(nameWords).Draw(rt, "word")
	case 1: // identifier-shaped
		return spoil(rt, genIdentifierShaped(rt))
	case 2: // UUID in every syntax uuid.Parse knows, any case
		u := rapid.SampledFrom(uuidSamples).Draw(rt, "uuid")
		if rapid.Bool().Draw(rt, "randomHex") {
			b := []byte(u)
			for i := range b {
				if b[i] != '-' {
					b[i] = "0123456789abcdefABCDEF"[rapid.IntRange(0, 21).Draw(rt, "hex")]
				}
			}
			if rapid.Bool().Draw(rt, "letterFirst") {
				b[0] = "abcdefABCDEF"[rapid.IntRange(0, 11).Draw(rt, "first")]
			}
			u = string(b)
		}
		switch rapid.IntRange(0, 6).Draw(rt, "syntax") {
		case 0:
			u = strings.ToUpper(u)
		case 1:
			u = "urn:uuid:" + u
		case 2:
			u = "{" + u + "}"
		case 3:
			u = strings.ReplaceAll(u, "-", "")
		case 4:
			u = "x" + u + "y" // 38 bytes: what a brace-insensitive parser also takes
		}
		return spoil(rt, u)
	default:
		n := rapid.IntRange(1, 12).Draw(rt, "atoms")
		var b strings.Builder
		if rapid.IntRange(0, 3).Draw(rt, "letterFirst") != 0 {
			b.WriteString(rapid.SampledFrom(nameAtoms[:11]).Draw(rt, "first"))
		}
		plain := rapid.Bool().Draw(rt, "plain")
		for i := 0; i < n; i++ {
			if plain {
				b.WriteString(rapid.SampledFrom(nameAtoms[:18]).Draw(rt, "atom"))
			} else {
				b.WriteString(rapid.SampledFrom(nameAtoms).Draw(rt, "atom"))
			}
		}
		return b.String()
	}
}

func TestNames(t *testing.T) {
	if ev.ReplayPath() != "" {
		t.Skip("replaying")
	}
	rec := ev.New(t, prop, "session-names", "rapid: names from letters of several scripts, ASCII and non-ASCII numbers, dashes, forbidden characters, reserved words, identifier-shaped strings and UUIDs in every uuid.Parse syntax and case, with small edits; non-trivial: the name is identifier-shaped, a dashed UUID or the reserved word")
	ev.Check(t, rec, 40000, 2000000, func(rt *rapid.T) {
		name := genName(rt)
		c := &Case{Kind: "name", Str: []byte(name), Text: fmt.Sprintf("%q", name)}
		v, nt, class := judgeName(c)
		rec.Eval()
		if v != "" {
			ev.Failf(rt, rec, c, "%s", v)
		}
		rec.Class(class)
		if nt {
			rec.Class("nontrivial")
			rec.NonTrivial(ev.Hash(name))
			if rec.WantSample() {
				rec.Sample(name)
			}
		}
	})
}

// TestBase62 checks the encoding the identifiers are built on directly: for
// byte strings of every length up to 40 with structured leading zeros, Encode
// is injective in the way New relies on (numeric value and, through the count
// of leading '0' digits, the length are both recoverable) and Decode inverts it.
func TestBase62(t *testing.T) {
	if ev.ReplayPath() != "" {
		t.Skip("replaying")
	}
	rec := ev.New(t, prop, "base62-round-trip", "rapid: byte strings of length 0..40 with a random number of leading zero bytes; EncodeBase62 output uses only the alphabet, has the value's numeral as its numeric reading, is never longer than 43 digits for 32 bytes, and DecodeBase62 returns the input; non-trivial: at least one leading zero byte")
	ev.Check(t, rec, 30000, 1500000, func(rt *rapid.T) {
		n := rapid.IntRange(0, 40).Draw(rt, "len")
		if rapid.Bool().Draw(rt, "exactly32") {
			n = valueLength
		}
		k := rapid.IntRange(0, n).Draw(rt, "zeros")
		if rapid.Bool().Draw(rt, "noZeros") {
			k = 0
		}
		value := make([]byte, n)
		copy(value[k:], rapid.SliceOfN(rapid.Byte(), n-k, n-k).Draw(rt, "tail"))
		c := &Case{Kind: "base62", Value: hex.EncodeToString(value)}
		rec.Eval()
		if v := judgeBase62(value); v != "" {
			ev.Failf(rt, rec, c, "%s", v)
		}
		if n > 0 && value[0] == 0 {
			rec.Class("leading-zero-bytes")
			rec.NonTrivial(ev.Hash(c.Value))
		}
		if n == valueLength {
			rec.Class("length-32")
		}
	})
}

func judgeBase62(value []byte) string {
	enc := encoding.EncodeBase62(value)
	got, ok := decode62(enc)
	if !ok {
		return fmt.Sprintf("EncodeBase62(%x) = %q uses characters outside the alphabet", value, enc)
	}
	if got.Cmp(new(big.Int).SetBytes(value)) != 0 {
		return fmt.Sprintf("EncodeBase62(%x) = %q reads as %x", value, enc, got)
	}
	if len(value) == valueLength && len(enc) > bodyLength {
		return fmt.Sprintf("EncodeBase62 of 32 bytes gave %d digits", len(enc))
	}
	dec, err := encoding.DecodeBase62(enc)
	if err != nil {
		return fmt.Sprintf("DecodeBase62(EncodeBase62(%x)) failed: %v", value, err)
	}
	if !bytes.Equal(dec, value) {
		return fmt.Sprintf("DecodeBase62(EncodeBase62(%x)) = %x", value, dec)
	}
	return ""
}

func TestReplay(t *testing.T) {
	if ev.ReplayPath() == "" {
		t.Skip("no replay requested")
	}
	var c Case
	if _, err := ev.LoadReplay(ev.ReplayPath(), &c); err != nil {
		t.Fatalf("cannot load replay: %v", err)
	}
	rec := ev.New(t, prop, "replay", "replay of a saved case")
	rec.Eval()
	var v string
	if c.Kind == "base62" {
		value, _ := hex.DecodeString(c.Value)
		v = judgeBase62(value)
	} else {
		v, _ = judge(&c)
	}
	if v != "" {
		ev.FailTB(t, rec, &c, "%s", v)
	}
}

var _ io.Reader = (*scriptedReader)(nil)
