// Package c39_identifier checks C39: generated session identifiers are well
// formed, decode to the random value they were made from (hence distinct values
// give distinct identifiers), truncate to a prefix, and session names that look
// like identifiers or are reserved are rejected.
//
// This file is the independent side: own base-62 arithmetic, own matchers for
// the documented identifier formats and an own reading of the session-name rule.
package c39_identifier

import (
	"math/big"

	"github.com/mutagen-io/mutagen/pkg/encoding"

	"unicode"
	"unicode/utf8"
)

// alphabet62 is the digit order of Mutagen's Base62. The exported constant is
// taken as the definition of the digits' values (any permutation of 0-9a-zA-Z
// gives an injective encoding; alphabetProblem checks that it is one), all
// arithmetic on top of it is the harness's own.
const alphabet62 = encoding.Base62Alphabet

// alphabetProblem reports why the alphabet cannot carry an injective encoding
// into [0-9a-zA-Z]{43} ("" if it can).
func alphabetProblem() string {
	if len(alphabet62) != 62 {
		return "the Base62 alphabet does not have 62 characters"
	}
	seen := map[byte]bool{}
	for i := 0; i < len(alphabet62); i++ {
		c := alphabet62[i]
		if !(c >= '0' && c <= '9' || c >= 'a' && c <= 'z' || c >= 'A' && c <= 'Z') || seen[c] {
			return "the Base62 alphabet is not a permutation of 0-9a-zA-Z"
		}
		seen[c] = true
	}
	return ""
}

var digitValue = func() (t [256]int) {
	for i := range t {
		t[i] = -1
	}
	for i := 0; i < len(alphabet62); i++ {
		t[alphabet62[i]] = i
	}
	return
}()

const (
	prefixLength = 4
	bodyLength   = 43
	valueLength  = 32
	idLength     = prefixLength + 1 + bodyLength
	truncLength  = prefixLength + 1 + 8
)

func digit62(c byte) int { return digitValue[c] }

// decode62 reads s as a big-endian base-62 numeral (Horner, math/big).
func decode62(s string) (*big.Int, bool) {
	v := new(big.Int)
	base := big.NewInt(62)
	for i := 0; i < len(s); i++ {
		d := digit62(s[i])
		if d < 0 {
			return nil, false
		}
		v.Mul(v, base).Add(v, big.NewInt(int64(d)))
	}
	return v, true
}

// encode62 writes v as exactly bodyLength base-62 digits (used only to build
// identifier-shaped strings for the name/validation parts and the boundary
// values; never to compute an expected identifier).
func encode62(v *big.Int) string {
	out := make([]byte, bodyLength)
	q, m := new(big.Int).Set(v), new(big.Int)
	base := big.NewInt(62)
	for i := bodyLength - 1; i >= 0; i-- {
		q.QuoRem(q, base, m)
		out[i] = alphabet62[m.Int64()]
	}
	return string(out)
}

func lowerASCII(c byte) bool { return c >= 'a' && c <= 'z' }

func validPrefix(p string) bool {
	if len(p) != prefixLength {
		return false
	}
	for i := 0; i < len(p); i++ {
		if !lowerASCII(p[i]) {
			return false
		}
	}
	return true
}

// isIdentifier: four lowercase ASCII letters, an underscore, 43 base-62 digits.
func isIdentifier(s string) bool {
	if len(s) != idLength || !validPrefix(s[:prefixLength]) || s[prefixLength] != '_' {
		return false
	}
	for i := prefixLength + 1; i < len(s); i++ {
		if c := s[i]; !(c >= '0' && c <= '9' || c >= 'a' && c <= 'z' || c >= 'A' && c <= 'Z') {
			return false
		}
	}
	return true
}

func hexDigit(c byte, allowUpper bool) bool {
	return c >= '0' && c <= '9' || c >= 'a' && c <= 'f' || allowUpper && c >= 'A' && c <= 'F'
}

// dashedUUID: xxxxxxxx-xxxx-xxxx-xxxx-xxxxxxxxxxxx.
func dashedUUID(s string, allowUpper bool) bool {
	if len(s) != 36 {
		return false
	}
	for i := 0; i < len(s); i++ {
		switch i {
		case 8, 13, 18, 23:
			if s[i] != '-' {
				return false
			}
		default:
			if !hexDigit(s[i], allowUpper) {
				return false
			}
		}
	}
	return true
}

// isLegacyIdentifier: a lowercase dashed UUID.
func isLegacyIdentifier(s string) bool { return dashedUUID(s, false) }

// nameRule is the harness's reading of the documented session-name rule.
type nameRule struct {
	mustReject string // non-empty: reason the name has to be refused
	mustAccept bool   // the name is plainly allowed by the documented rule
}

func judgeNameRule(name string) nameRule {
	switch {
	case isIdentifier(name):
		return nameRule{mustReject: "it is a well-formed session identifier"}
	case isLegacyIdentifier(name):
		return nameRule{mustReject: "it is a legacy (UUID) session identifier"}
	case dashedUUID(name, true):
		return nameRule{mustReject: "it is a UUID"}
	case name == "defaults":
		return nameRule{mustReject: `"defaults" is reserved`}
	case name == "":
		return nameRule{mustAccept: true}
	}
	first := true
	for i := 0; i < len(name); {
		r, size := utf8.DecodeRuneInString(name[i:])
		if r == utf8.RuneError && size == 1 {
			return nameRule{mustReject: "it contains invalid UTF-8"}
		}
		switch {
		case unicode.IsLetter(r):
		case first:
			return nameRule{mustReject: "it does not start with a letter"}
		case unicode.IsNumber(r), r == '-':
		default:
			return nameRule{mustReject: "it contains a character other than letters, numbers and dashes"}
		}
		first = false
		i += size
	}
	// Only short names are demanded to be accepted: anything of UUID-like length
	// is left to the implementation's (library-defined) UUID detection.
	return nameRule{mustAccept: len(name) < 32}
}
