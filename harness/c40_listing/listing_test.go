package c40_listing

import (
	"encoding/json"
	"fmt"
	"strings"
	"testing"

	"pgregory.net/rapid"

	"github.com/mutagen-io/mutagen/pkg/synchronization/core"
	"github.com/mutagen-io/mutagen/pkg/synchronization/core/fastpath"

	"verif/kit/ev"
)

const prop = "C40"

const rule = "non-trivial: a query selects a proper non-empty subset of the sessions, or a listed conflict/problem list has at least two entries"

// ---------------------------------------------------------------- generator

var (
	names      = []string{"", "web", "web", "db", "api", "web-1", "Web", "w", "cache", "apix", "ap", "sync-Abc", "däta"}
	labelKeys  = []string{"env", "tier", "app.io/name", "x", "team"}
	labelVals  = []string{"prod", "dev", "", "a-b", "1", "web"}
	components = []string{"a", "a-", "a.b", "a b", "b", "B", "ab", "a!", "0", "~", "ä", "a_"}
)

func drawLabels(rt *rapid.T, label string) map[string]string {
	n := rapid.SampledFrom([]int{0, 0, 1, 1, 2, 3}).Draw(rt, label+".n")
	if n == 0 {
		return nil
	}
	out := map[string]string{}
	for i := 0; i < n; i++ {
		out[rapid.SampledFrom(labelKeys).Draw(rt, fmt.Sprintf("%s.k%d", label, i))] = rapid.SampledFrom(labelVals).Draw(rt, fmt.Sprintf("%s.v%d", label, i))
	}
	return out
}

func drawReq(rt *rapid.T, label string) Req {
	r := Req{Key: rapid.SampledFrom(append(append([]string{}, labelKeys...), "absent")).Draw(rt, label+".key")}
	r.Op = rapid.SampledFrom([]string{"=", "==", "!=", "in", "notin", "exists", "!"}).Draw(rt, label+".op")
	r.Spacing = rapid.IntRange(0, 1).Draw(rt, label+".spacing")
	switch r.Op {
	case "=", "==", "!=":
		r.Values = []string{rapid.SampledFrom(labelVals).Draw(rt, label+".value")}
	case "in", "notin":
		n := rapid.IntRange(1, 3).Draw(rt, label+".values")
		for i := 0; i < n; i++ {
			// The empty value cannot be written inside a set.
			r.Values = append(r.Values, rapid.SampledFrom([]string{"prod", "dev", "a-b", "1", "web", "none"}).Draw(rt, fmt.Sprintf("%s.value%d", label, i)))
		}
	}
	return r
}

func drawQuery(rt *rapid.T, label string, sessions int) Query {
	switch rapid.SampledFrom([]string{"all", "specs", "specs", "specs", "selector", "selector", "selector", "malformed"}).Draw(rt, label+".kind") {
	case "all":
		return Query{All: true}
	case "specs":
		n := rapid.IntRange(1, 4).Draw(rt, label+".n")
		q := Query{}
		for i := 0; i < n; i++ {
			l := fmt.Sprintf("%s.spec%d", label, i)
			s := Spec{Index: rapid.IntRange(0, max(sessions-1, 0)).Draw(rt, l+".index")}
			s.Kind = rapid.SampledFrom([]string{"id", "id", "id", "id", "id", "id", "name", "name", "name", "name", "name", "name", "name", "name", "id-prefix", "id-truncated", "name-prefix", "name-extended", "name-case", "literal"}).Draw(rt, l+".kind")
			if s.Kind == "literal" || sessions == 0 {
				s.Kind = "literal"
				s.Text = rapid.SampledFrom([]string{"nosuch", "web", "sync_", "sync", "WEB", "db ", "a"}).Draw(rt, l+".text")
			}
			q.Specs = append(q.Specs, s)
		}
		return q
	case "malformed":
		return Query{RawSelector: rapid.SampledFrom([]string{"=x", "env in prod", "(env)", "env=prod,", "env notin", "env in (prod", "a b"}).Draw(rt, label+".raw")}
	default:
		n := rapid.IntRange(1, 3).Draw(rt, label+".n")
		q := Query{}
		for i := 0; i < n; i++ {
			q.Selector = append(q.Selector, drawReq(rt, fmt.Sprintf("%s.req%d", label, i)))
		}
		return q
	}
}

// drawPaths draws n distinct paths none of which lies beneath another.
func drawPaths(rt *rapid.T, label string, n int) []string {
	var leaves []string
	used := map[string]bool{}
	// Directories that may receive further children.
	directories := []string{""}
	isDirectory := map[string]bool{"": true}
	for i := 0; len(leaves) < n && i < 4*n+8; i++ {
		parent := rapid.SampledFrom(directories).Draw(rt, fmt.Sprintf("%s.parent%d", label, i))
		name := rapid.SampledFrom(components).Draw(rt, fmt.Sprintf("%s.name%d", label, i))
		path := name
		if parent != "" {
			path = parent + "/" + name
		}
		if used[path] || isDirectory[path] {
			continue
		}
		if strings.Count(path, "/") < 2 && rapid.IntRange(0, 3).Draw(rt, fmt.Sprintf("%s.dir%d", label, i)) == 0 {
			isDirectory[path] = true
			directories = append(directories, path)
			continue
		}
		used[path] = true
		leaves = append(leaves, path)
	}
	return leaves
}

func drawProblems(rt *rapid.T, label string) []Prob {
	n := rapid.SampledFrom([]int{11, 12, 5, 20, 10, 2, 9, 40, 1, 0}).Draw(rt, label+".n")
	var out []Prob
	for i := 0; i < n; i++ {
		depth := rapid.IntRange(1, 3).Draw(rt, fmt.Sprintf("%s.depth%d", label, i))
		var parts []string
		for d := 0; d < depth; d++ {
			parts = append(parts, rapid.SampledFrom(components).Draw(rt, fmt.Sprintf("%s.c%d.%d", label, i, d)))
		}
		path := strings.Join(parts, "/")
		if rapid.IntRange(0, 30).Draw(rt, fmt.Sprintf("%s.root%d", label, i)) == 30 {
			path = ""
		}
		// Equal paths carry equal texts, so that ties are indistinguishable.
		out = append(out, Prob{path, "cannot apply " + path})
	}
	return out
}

func drawLive(rt *rapid.T, sessions int) *Live {
	l := &Live{Position: rapid.IntRange(0, max(sessions-1, 0)).Draw(rt, "live.position")}
	n := rapid.SampledFrom([]int{12, 11, 25, 8, 40, 3, 60, 1, 0}).Draw(rt, "live.leaves")
	profile := rapid.SampledFrom([]string{"mixed", "mixed", "conflicts", "alpha-problems", "beta-problems"}).Draw(rt, "live.profile")
	for i, p := range drawPaths(rt, "live.path", n) {
		var kinds []string
		switch profile {
		case "conflicts":
			kinds = []string{"conflict", "conflict", "conflict", "conflict-dir", "agree"}
		case "alpha-problems":
			kinds = []string{"alpha-problem", "alpha-problem", "both-problem", "conflict"}
		case "beta-problems":
			kinds = []string{"beta-problem", "beta-problem", "both-problem", "conflict"}
		default:
			kinds = []string{"conflict", "conflict", "conflict-dir", "alpha-problem", "beta-problem", "both-problem", "agree", "alpha-only", "beta-only"}
		}
		l.Leaves = append(l.Leaves, Leaf{Path: p, Kind: rapid.SampledFrom(kinds).Draw(rt, fmt.Sprintf("live.kind%d", i))})
	}
	if rapid.Bool().Draw(rt, "live.transitions") {
		// Make sure both sides have something to apply, then script problems.
		l.Leaves = append(l.Leaves, Leaf{Path: "zz-alpha-only", Kind: "alpha-only"}, Leaf{Path: "zz-beta-only", Kind: "beta-only"})
		l.AlphaTransition = drawProblems(rt, "live.alphaTransition")
		l.BetaTransition = drawProblems(rt, "live.betaTransition")
	}
	return l
}

func genCase(rt *rapid.T) *Case {
	c := &Case{}
	n := rapid.SampledFrom([]int{5, 3, 8, 2, 12, 1, 0}).Draw(rt, "sessions")
	for i := 0; i < n; i++ {
		c.Sessions = append(c.Sessions, SessionSpec{
			Name:   rapid.SampledFrom(names).Draw(rt, fmt.Sprintf("name%d", i)),
			Labels: drawLabels(rt, fmt.Sprintf("labels%d", i)),
		})
	}
	if n > 0 && rapid.IntRange(0, 2).Draw(rt, "live") != 0 {
		c.Live = drawLive(rt, n)
	}
	c.Restart = rapid.IntRange(0, 4).Draw(rt, "restart") == 4
	if c.Live != nil && !c.Restart && rapid.Bool().Draw(rt, "second-cycle") {
		next := drawLive(rt, n)
		next.Position = c.Live.Position
		for i := range next.Leaves {
			next.Leaves[i].Path = "second/" + next.Leaves[i].Path
		}
		// Neither root may look emptied in the second cycle.
		next.Leaves = append(next.Leaves, Leaf{Path: "second/zz-keep", Kind: "agree"})
		c.LiveNext = next
	}
	q := rapid.IntRange(1, 5).Draw(rt, "queries")
	for i := 0; i < q; i++ {
		c.Queries = append(c.Queries, drawQuery(rt, fmt.Sprintf("q%d", i), n))
	}
	return c
}

// -------------------------------------------------------------------- tests

func TestSessionsRandom(t *testing.T) {
	if ev.ReplayPath() != "" {
		t.Skip("replaying")
	}
	rec := ev.New(t, prop, "sessions-random", "rapid: 0-12 sessions (paused; names with duplicates, prefixes and case variants; label maps) created in a real in-process Manager, optionally reloaded from disk; 1-5 queries each (all / specifications mixing identifiers, names, truncated identifiers, prefixes, extensions, case variants, unknowns / label selectors over =, ==, !=, in, notin, exists, ! / malformed selectors); one session optionally runs a cycle on scripted endpoints that produce 0-60 conflicts and scan problems at prefix-free paths over a component alphabet with characters on both sides of '/' and scripted transition problem lists of 0-40 entries; "+rule)
	ev.Check(t, rec, 2000, 12000, func(rt *rapid.T) {
		c := genCase(rt)
		v := judge(c)
		rec.Eval()
		if v.Violation != "" {
			ev.Failf(rt, rec, c, "%s", v.Violation)
		}
		rec.Class(fmt.Sprintf("sessions/%d", len(c.Sessions)))
		if c.Live != nil {
			rec.Class("live-session")
		}
		for _, cl := range v.Classes {
			rec.Class(cl)
		}
		if v.NonTrivial {
			rec.NonTrivial(ev.Hash(fmt.Sprintf("%+v|%+v|%+v", c.Sessions, c.Live, c.Queries)))
			if rec.WantSample() && len(c.Sessions) <= 3 {
				rec.Sample(c)
			}
		}
	})
}

// pathUniverse returns every path of 1..depth components whose components are
// the non-empty strings of up to width characters over alphabet.
func pathUniverse(alphabet string, width, depth int) []string {
	var comps []string
	var build func(prefix string)
	build = func(prefix string) {
		if prefix != "" {
			comps = append(comps, prefix)
		}
		if len(prefix) == width {
			return
		}
		for _, c := range alphabet {
			build(prefix + string(c))
		}
	}
	build("")
	paths := []string{""}
	level := []string{""}
	for d := 0; d < depth; d++ {
		var next []string
		for _, p := range level {
			for _, c := range comps {
				q := c
				if p != "" {
					q = p + "/" + c
				}
				next = append(next, q)
			}
		}
		paths = append(paths, next...)
		level = next
	}
	return paths
}

// TestPathOrderExhaustive compares fastpath.Less with the specification on
// all pairs of short paths, and the two sort helpers with it on lists.
func TestPathOrderExhaustive(t *testing.T) {
	if ev.ReplayPath() != "" {
		t.Skip("replaying")
	}
	rec := ev.New(t, prop, "path-order-exhaustive", "all ordered pairs of paths with 0-3 components of 1-2 characters over an alphabet with characters below and above '/'; non-trivial: pairs of distinct paths")
	alphabet := "a-0"
	depth := 3
	if ev.Thorough() {
		alphabet = "a-0~"
	}
	paths := pathUniverse(alphabet, 2, depth)
	rec.SetExhaustive(fmt.Sprintf("alphabet %q, components of 1-2 characters, 0-%d components: %d paths, all ordered pairs", alphabet, depth, len(paths)))
	// Shards split the first coordinate.
	var evals, nts uint64
	for i, p := range paths {
		if i%ev.Shards() != ev.Shard() {
			continue
		}
		for _, q := range paths {
			evals++
			if p != q {
				nts++
			}
			if got, want := fastpath.Less(p, q), dfsLess(p, q); got != want {
				rec.EvalN(evals)
				ev.FailTB(t, rec, PairCase{P: p, Q: q}, "fastpath.Less(%q, %q) = %v, depth-first order says %v", p, q, got, want)
			}
		}
	}
	rec.EvalN(evals)
	rec.NonTrivialDistinct(nts)
	// The specification itself is a strict total order on this universe
	// (checked on a sample of triples so that a slip in the model shows).
	sample := paths
	if len(sample) > 120 {
		step := len(sample) / 120
		var s []string
		for i := 0; i < len(paths); i += step {
			s = append(s, paths[i])
		}
		sample = s
	}
	for _, a := range sample {
		for _, b := range sample {
			if a != b && dfsLess(a, b) == dfsLess(b, a) {
				t.Fatalf("model: dfsLess is not total/asymmetric on %q, %q", a, b)
			}
			for _, c := range sample {
				if dfsLess(a, b) && dfsLess(b, c) && !dfsLess(a, c) {
					t.Fatalf("model: dfsLess is not transitive on %q, %q, %q", a, b, c)
				}
			}
		}
	}
}

// PairCase / SortCase are the replayable cases of the pure parts.
type PairCase struct {
	P string `json:"p"`
	Q string `json:"q"`
}

type SortCase struct {
	Paths []string `json:"paths"`
}

func judgeSort(c *SortCase) string {
	conflicts := make([]*core.Conflict, len(c.Paths))
	problems := make([]*core.Problem, len(c.Paths))
	for i, p := range c.Paths {
		conflicts[i] = &core.Conflict{Root: p}
		problems[i] = &core.Problem{Path: p, Error: "e:" + p}
	}
	core.SortConflicts(conflicts)
	core.SortProblems(problems)
	want := sortedPaths(c.Paths)
	for i := range want {
		if conflicts[i].Root != want[i] {
			return fmt.Sprintf("SortConflicts puts %q at position %d, depth-first order puts %q there", conflicts[i].Root, i, want[i])
		}
		if problems[i].Path != want[i] || problems[i].Error != "e:"+want[i] {
			return fmt.Sprintf("SortProblems puts %q (%q) at position %d, depth-first order puts %q there", problems[i].Path, problems[i].Error, i, want[i])
		}
	}
	return ""
}

func TestSortRandom(t *testing.T) {
	if ev.ReplayPath() != "" {
		t.Skip("replaying")
	}
	rec := ev.New(t, prop, "sort-random", "rapid: lists of 0-60 paths (1-4 components over the component alphabet, duplicates allowed) sorted with core.SortConflicts / core.SortProblems and compared with the depth-first specification; non-trivial: lists with at least two distinct paths")
	ev.Check(t, rec, 20000, 300000, func(rt *rapid.T) {
		n := rapid.IntRange(0, 60).Draw(rt, "n")
		c := &SortCase{}
		for i := 0; i < n; i++ {
			depth := rapid.IntRange(1, 4).Draw(rt, "depth")
			var parts []string
			for d := 0; d < depth; d++ {
				parts = append(parts, rapid.SampledFrom(components).Draw(rt, "component"))
			}
			c.Paths = append(c.Paths, strings.Join(parts, "/"))
		}
		rec.Eval()
		if msg := judgeSort(c); msg != "" {
			ev.Failf(rt, rec, c, "%s", msg)
		}
		distinct := map[string]bool{}
		for _, p := range c.Paths {
			distinct[p] = true
		}
		if len(distinct) >= 2 {
			rec.NonTrivial(ev.Hash(c.Paths...))
		}
	})
}

func TestReplay(t *testing.T) {
	if ev.ReplayPath() == "" {
		t.Skip("no replay requested")
	}
	rec := ev.New(t, prop, "replay", "replay of a saved case")
	// The shape of the case tells which part it belongs to.
	var probe map[string]json.RawMessage
	if _, err := ev.LoadReplay(ev.ReplayPath(), &probe); err != nil {
		t.Fatalf("cannot load replay: %v", err)
	}
	part := "sessions"
	if _, ok := probe["p"]; ok {
		part = "pair"
	} else if _, ok := probe["paths"]; ok {
		part = "sort"
	}
	switch part {
	case "pair":
		var c PairCase
		if _, err := ev.LoadReplay(ev.ReplayPath(), &c); err != nil {
			t.Fatalf("cannot load replay: %v", err)
		}
		rec.Eval()
		if got, want := fastpath.Less(c.P, c.Q), dfsLess(c.P, c.Q); got != want {
			ev.FailTB(t, rec, c, "fastpath.Less(%q, %q) = %v, depth-first order says %v", c.P, c.Q, got, want)
		}
	case "sort":
		var c SortCase
		if _, err := ev.LoadReplay(ev.ReplayPath(), &c); err != nil {
			t.Fatalf("cannot load replay: %v", err)
		}
		rec.Eval()
		if msg := judgeSort(&c); msg != "" {
			ev.FailTB(t, rec, c, "%s", msg)
		}
	default:
		var c Case
		if _, err := ev.LoadReplay(ev.ReplayPath(), &c); err != nil {
			t.Fatalf("cannot load replay: %v", err)
		}
		v := judge(&c)
		rec.Eval()
		if v.Violation != "" {
			ev.FailTB(t, rec, &c, "%s", v.Violation)
		}
	}
}
