// Package c40_listing checks property C40: session selection by identifier,
// name and label selector is exact, listings are ordered by creation time,
// conflicts and problems are listed in depth-first path order and truncated
// lists report exactly how many entries were left out.
//
// This file is the independent side: an own depth-first path order, an own
// label selector evaluator, the model of selection and of list truncation.
// Nothing here calls into Mutagen.
package c40_listing

import (
	"sort"
	"strings"
)

// dfsLess is the specification of the listing order: paths are compared
// component by component (bytewise within a component); a path sorts before
// everything beneath it; the root ("") sorts first.
func dfsLess(p, q string) bool {
	if p == q {
		return false
	}
	if p == "" {
		return true
	}
	if q == "" {
		return false
	}
	a, b := strings.Split(p, "/"), strings.Split(q, "/")
	for i := 0; i < len(a) && i < len(b); i++ {
		if a[i] != b[i] {
			return a[i] < b[i]
		}
	}
	return len(a) < len(b)
}

// Prob is a problem as plain data.
type Prob struct {
	Path  string `json:"path"`
	Error string `json:"error"`
}

// sortedProblems returns the problems in listing order. Entries with equal
// paths must have equal texts (the generator guarantees it), so the order
// among them is immaterial.
func sortedProblems(in []Prob) []Prob {
	out := append([]Prob(nil), in...)
	sort.SliceStable(out, func(i, j int) bool { return dfsLess(out[i].Path, out[j].Path) })
	return out
}

func sortedPaths(in []string) []string {
	out := append([]string(nil), in...)
	sort.SliceStable(out, func(i, j int) bool { return dfsLess(out[i], out[j]) })
	return out
}

// listLimit is the documented number of conflicts / problems a listing shows.
const listLimit = 10

// truncate returns how many entries a listing shows and how many it reports
// as left out.
func truncate(total int) (shown int, excluded uint64) {
	if total > listLimit {
		return listLimit, uint64(total - listLimit)
	}
	return total, 0
}

// ------------------------------------------------------ label selectors

// Req is one requirement of a label selector.
type Req struct {
	Key string `json:"key"`
	// Op is one of "=", "==", "!=", "in", "notin", "exists", "!".
	Op     string   `json:"op"`
	Values []string `json:"values,omitempty"`
	// Spacing selects a whitespace variant when rendering (0: none).
	Spacing int `json:"spacing,omitempty"`
}

// render writes the requirement in selector syntax.
func (r Req) render() string {
	sp := ""
	if r.Spacing == 1 {
		sp = " "
	}
	switch r.Op {
	case "exists":
		return r.Key
	case "!":
		return "!" + r.Key
	case "in", "notin":
		return r.Key + " " + r.Op + " (" + strings.Join(r.Values, ","+sp) + ")"
	default:
		return r.Key + sp + r.Op + sp + r.Values[0]
	}
}

func renderSelector(reqs []Req) string {
	parts := make([]string, len(reqs))
	for i, r := range reqs {
		parts[i] = r.render()
	}
	return strings.Join(parts, ",")
}

// matches is the documented meaning of a requirement (the syntax and meaning
// are those of Kubernetes label selectors).
func (r Req) matches(labels map[string]string) bool {
	value, has := labels[r.Key]
	in := false
	for _, v := range r.Values {
		if v == value {
			in = true
		}
	}
	switch r.Op {
	case "=", "==", "in":
		return has && in
	case "!=", "notin":
		return !has || !in
	case "exists":
		return has
	case "!":
		return !has
	}
	panic("unknown operator " + r.Op)
}

func selectorMatches(reqs []Req, labels map[string]string) bool {
	for _, r := range reqs {
		if !r.matches(labels) {
			return false
		}
	}
	return true
}

// ----------------------------------------------------------- selection

// SessionSpec is a session to create.
type SessionSpec struct {
	Name   string            `json:"name,omitempty"`
	Labels map[string]string `json:"labels,omitempty"`
}

// Spec is one specification of a query: the identifier or the name of the
// session at Index (in creation order), a transformation of one of them that
// must not match, or a literal.
type Spec struct {
	// Kind: "id", "name", "id-prefix", "id-truncated", "name-prefix",
	// "name-extended", "name-case", "literal".
	Kind  string `json:"kind"`
	Index int    `json:"index"`
	Text  string `json:"text,omitempty"`
}

// Query is one selection.
type Query struct {
	All      bool   `json:"all,omitempty"`
	Specs    []Spec `json:"specs,omitempty"`
	Selector []Req  `json:"selector,omitempty"`
	// RawSelector, if set, is a malformed selector that must be refused.
	RawSelector string `json:"raw_selector,omitempty"`
}

// resolve turns a specification into text, given the identifiers of the
// created sessions.
func (s Spec) resolve(sessions []SessionSpec, ids []string) string {
	if s.Kind == "literal" || len(ids) == 0 {
		return s.Text
	}
	i := s.Index % len(ids)
	id, name := ids[i], sessions[i].Name
	switch s.Kind {
	case "id":
		return id
	case "name":
		return name
	case "id-prefix":
		return id[:len(id)-1]
	case "id-truncated":
		return id[:13]
	case "name-prefix":
		if len(name) > 1 {
			return name[:len(name)-1]
		}
		return name
	case "name-extended":
		return name + "x"
	case "name-case":
		return strings.ToUpper(name)
	}
	return s.Text
}

// expectedSelection returns the indices (creation order) of the sessions a
// query selects, or refused=true when the query must fail.
func expectedSelection(q Query, sessions []SessionSpec, ids []string) (selected []int, refused bool) {
	switch {
	case q.All:
		for i := range sessions {
			selected = append(selected, i)
		}
	case len(q.Specs) > 0:
		hit := make([]bool, len(sessions))
		for _, s := range q.Specs {
			text := s.resolve(sessions, ids)
			matched := false
			for i := range sessions {
				if ids[i] == text || sessions[i].Name == text {
					hit[i], matched = true, true
				}
			}
			if !matched {
				return nil, true
			}
		}
		for i, h := range hit {
			if h {
				selected = append(selected, i)
			}
		}
	case q.RawSelector != "":
		return nil, true
	default:
		for i, s := range sessions {
			if selectorMatches(q.Selector, s.Labels) {
				selected = append(selected, i)
			}
		}
	}
	return selected, false
}

// ------------------------------------------------------- live session

// Leaf is one leaf of the scripted content of the live session's endpoints.
type Leaf struct {
	Path string `json:"path"`
	// Kind: "conflict" (different files on both sides), "conflict-dir" (a
	// directory with content on alpha, a file on beta), "alpha-problem",
	// "beta-problem", "both-problem", "agree" (same file on both sides),
	// "alpha-only", "beta-only" (a new file on one side: a transition for
	// the other side).
	Kind string `json:"kind"`
}

// Live describes the scripted state of the one session that runs a cycle.
type Live struct {
	// Position is the index (creation order) at which the live session is
	// created among the others.
	Position int    `json:"position"`
	Leaves   []Leaf `json:"leaves"`
	// AlphaTransition / BetaTransition are the problems the scripted
	// transitions report.
	AlphaTransition []Prob `json:"alpha_transition,omitempty"`
	BetaTransition  []Prob `json:"beta_transition,omitempty"`
}

// Expectation is what the listing of the live session must show.
type Expectation struct {
	Conflicts                       []string
	AlphaScan, BetaScan             []Prob
	AlphaTransition, BetaTransition []Prob
	DirectoryConflicts              map[string]bool
}

func problemText(side, path string) string { return side + " cannot read " + path }

func (l *Live) expectation() Expectation {
	e := Expectation{DirectoryConflicts: map[string]bool{}}
	alphaTransitions, betaTransitions := false, false
	for _, leaf := range l.Leaves {
		switch leaf.Kind {
		case "conflict":
			e.Conflicts = append(e.Conflicts, leaf.Path)
		case "conflict-dir":
			e.Conflicts = append(e.Conflicts, leaf.Path)
			e.DirectoryConflicts[leaf.Path] = true
		case "alpha-problem":
			e.AlphaScan = append(e.AlphaScan, Prob{leaf.Path, problemText("alpha", leaf.Path)})
		case "beta-problem":
			e.BetaScan = append(e.BetaScan, Prob{leaf.Path, problemText("beta", leaf.Path)})
		case "both-problem":
			e.AlphaScan = append(e.AlphaScan, Prob{leaf.Path, problemText("alpha", leaf.Path)})
			e.BetaScan = append(e.BetaScan, Prob{leaf.Path, problemText("beta", leaf.Path)})
		case "alpha-only":
			betaTransitions = true
		case "beta-only":
			alphaTransitions = true
		}
	}
	// Transition problems only exist for a side that had something to apply.
	if alphaTransitions {
		e.AlphaTransition = l.AlphaTransition
	}
	if betaTransitions {
		e.BetaTransition = l.BetaTransition
	}
	e.Conflicts = sortedPaths(e.Conflicts)
	e.AlphaScan, e.BetaScan = sortedProblems(e.AlphaScan), sortedProblems(e.BetaScan)
	e.AlphaTransition, e.BetaTransition = sortedProblems(e.AlphaTransition), sortedProblems(e.BetaTransition)
	return e
}
