package c40_listing

import (
	"context"
	"crypto/sha1"
	"errors"
	"fmt"
	"os"
	"path/filepath"
	"strings"
	"sync/atomic"
	"time"

	"github.com/mutagen-io/mutagen/pkg/selection"
	"github.com/mutagen-io/mutagen/pkg/synchronization"
	"github.com/mutagen-io/mutagen/pkg/synchronization/core"

	"verif/kit/ev"
	"verif/kit/sess"
)

// Case is a set of sessions, optionally one live session with scripted
// content, and queries.
type Case struct {
	Sessions []SessionSpec `json:"sessions"`
	Live     *Live         `json:"live,omitempty"`
	// LiveNext, if set, is what the live session's endpoints report in a
	// second cycle (all paths below "second/"); the session is listed again
	// after it.
	LiveNext *Live   `json:"live_next,omitempty"`
	Queries  []Query `json:"queries"`
	// Restart reloads the manager from disk before the queries.
	Restart bool `json:"restart,omitempty"`
}

// Verdict is the outcome of judging a case.
type Verdict struct {
	Violation  string
	NonTrivial bool
	Classes    []string
}

func fileEntry(content string) *core.Entry {
	digest := sha1.Sum([]byte(content))
	return &core.Entry{Kind: core.EntryKind_File, Digest: digest[:]}
}

// insert places entry at path beneath root, creating directories.
func insert(root *core.Entry, path string, entry *core.Entry) {
	components := strings.Split(path, "/")
	for _, c := range components[:len(components)-1] {
		child := root.Contents[c]
		if child == nil {
			child = &core.Entry{Kind: core.EntryKind_Directory, Contents: map[string]*core.Entry{}}
			if root.Contents == nil {
				root.Contents = map[string]*core.Entry{}
			}
			root.Contents[c] = child
		}
		root = child
	}
	if root.Contents == nil {
		root.Contents = map[string]*core.Entry{}
	}
	root.Contents[components[len(components)-1]] = entry
}

// snapshots builds the scripted content of both endpoints.
func (l *Live) snapshots() (alpha, beta *core.Snapshot) {
	a := &core.Entry{Kind: core.EntryKind_Directory, Contents: map[string]*core.Entry{}}
	b := &core.Entry{Kind: core.EntryKind_Directory, Contents: map[string]*core.Entry{}}
	for _, leaf := range l.Leaves {
		switch leaf.Kind {
		case "conflict":
			insert(a, leaf.Path, fileEntry("alpha:"+leaf.Path))
			insert(b, leaf.Path, fileEntry("beta:"+leaf.Path))
		case "conflict-dir":
			insert(a, leaf.Path, &core.Entry{Kind: core.EntryKind_Directory, Contents: map[string]*core.Entry{
				"inner": fileEntry("inner:" + leaf.Path),
				"sub":   {Kind: core.EntryKind_Directory, Contents: map[string]*core.Entry{"deep": fileEntry("deep")}},
			}})
			insert(b, leaf.Path, fileEntry("beta:"+leaf.Path))
		case "alpha-problem":
			insert(a, leaf.Path, &core.Entry{Kind: core.EntryKind_Problematic, Problem: problemText("alpha", leaf.Path)})
		case "beta-problem":
			insert(b, leaf.Path, &core.Entry{Kind: core.EntryKind_Problematic, Problem: problemText("beta", leaf.Path)})
		case "both-problem":
			insert(a, leaf.Path, &core.Entry{Kind: core.EntryKind_Problematic, Problem: problemText("alpha", leaf.Path)})
			insert(b, leaf.Path, &core.Entry{Kind: core.EntryKind_Problematic, Problem: problemText("beta", leaf.Path)})
		case "agree":
			insert(a, leaf.Path, fileEntry("same:"+leaf.Path))
			insert(b, leaf.Path, fileEntry("same:"+leaf.Path))
		case "alpha-only":
			insert(a, leaf.Path, fileEntry("alpha:"+leaf.Path))
		case "beta-only":
			insert(b, leaf.Path, fileEntry("beta:"+leaf.Path))
		}
	}
	return &core.Snapshot{Content: a, PreservesExecutability: true}, &core.Snapshot{Content: b, PreservesExecutability: true}
}

func realProblems(in []Prob) []*core.Problem {
	out := make([]*core.Problem, len(in))
	for i, p := range in {
		out[i] = &core.Problem{Path: p.Path, Error: p.Error}
	}
	return out
}

func plainProblems(in []*core.Problem) []Prob {
	out := make([]Prob, len(in))
	for i, p := range in {
		out[i] = Prob{p.Path, p.Error}
	}
	return out
}

func sameProblems(got []*core.Problem, want []Prob) bool {
	if len(got) != len(want) {
		return false
	}
	for i := range got {
		if got[i].Path != want[i].Path || got[i].Error != want[i].Error {
			return false
		}
	}
	return true
}

// hasContents tells whether an entry still carries directory contents.
func hasContents(e *core.Entry) bool { return e != nil && len(e.Contents) > 0 }

// judge creates the sessions in a fresh manager, runs the live session's
// cycle, issues the queries and compares with the model.
func judge(c *Case) (v Verdict) {
	class := func(s string) { v.Classes = append(v.Classes, s) }
	fail := func(format string, a ...any) Verdict {
		v.Violation = fmt.Sprintf(format, a...)
		return v
	}
	dir, err := os.MkdirTemp("", "c40_listing-")
	if err != nil {
		return fail("harness: %v", err)
	}
	defer os.RemoveAll(dir)
	env, err := sess.NewEnv(filepath.Join(dir, "data"))
	if err != nil {
		return fail("harness: cannot create manager: %v", err)
	}
	defer func() { env.Close() }()

	// Scripted endpoints for the live session.
	var liveID atomic.Value
	liveID.Store("")
	var current atomic.Pointer[Live]
	if c.Live != nil {
		current.Store(c.Live)
		type pair struct{ alpha, beta *core.Snapshot }
		snaps := map[*Live]pair{}
		for _, l := range []*Live{c.Live, c.LiveNext} {
			if l != nil {
				a, b := l.snapshots()
				snaps[l] = pair{a, b}
			}
		}
		hooks := &sess.Hooks{
			SkipStaging: true,
			Scan: func(session string, alpha bool, ancestor *core.Entry, full bool) (bool, *core.Snapshot, error, bool) {
				if session != liveID.Load().(string) {
					return false, nil, nil, false
				}
				if alpha {
					return true, snaps[current.Load()].alpha, nil, false
				}
				return true, snaps[current.Load()].beta, nil, false
			},
			Transition: func(session string, alpha bool, transitions []*core.Change) (bool, []*core.Entry, []*core.Problem, bool, error) {
				if session != liveID.Load().(string) {
					return false, nil, nil, false, nil
				}
				// Nothing is applied: every transition reports its old content.
				results := make([]*core.Entry, len(transitions))
				for i, t := range transitions {
					results[i] = t.Old
				}
				if alpha {
					return true, results, realProblems(current.Load().AlphaTransition), false, nil
				}
				return true, results, realProblems(current.Load().BetaTransition), false, nil
			},
		}
		sess.Install(nil, hooks)
		defer sess.Install(nil, nil)
	}

	// Create the sessions in order.
	ids := make([]string, len(c.Sessions))
	liveIndex := -1
	if c.Live != nil && len(c.Sessions) > 0 {
		liveIndex = c.Live.Position % len(c.Sessions)
	}
	for i, s := range c.Sessions {
		alphaRoot, betaRoot := filepath.Join(dir, fmt.Sprintf("alpha%d", i)), filepath.Join(dir, fmt.Sprintf("beta%d", i))
		paused := i != liveIndex
		if !paused {
			os.MkdirAll(alphaRoot, 0o755)
			os.MkdirAll(betaRoot, 0o755)
		}
		id, err := env.Create(alphaRoot, betaRoot, sess.ManualConfig(core.SynchronizationMode_SynchronizationModeTwoWaySafe), nil, nil, s.Name, s.Labels, paused)
		if err != nil {
			return fail("harness: cannot create session %d: %v", i, err)
		}
		ids[i] = id
		if !paused {
			liveID.Store(id)
		}
	}

	// Run one cycle of the live session.
	if liveIndex >= 0 {
		if err := env.Flush(ids[liveIndex], 2*time.Minute); err != nil {
			if errors.Is(err, context.DeadlineExceeded) || errors.Is(err, sess.ErrNotReady) || strings.Contains(err.Error(), "deadline") || strings.Contains(err.Error(), "not currently able") {
				// Too slow to tell (loaded machine): no verdict for this case.
				ev.Inconclusive("C40: the live session's cycle did not complete in time: %v", err)
				class("inconclusive")
				return v
			}
			return fail("the live session's cycle failed: %v", err)
		}
	}
	if c.Restart {
		if liveIndex >= 0 {
			// A restarted live session would resume and run on its own; the
			// listing part is judged before the restart instead.
			if msg := checkListing(c, env, ids[liveIndex], &v); msg != "" {
				return fail("%s", msg)
			}
			if err := env.Pause(ids[liveIndex]); err != nil {
				return fail("harness: cannot pause the live session: %v", err)
			}
		}
		if err := env.Restart(); err != nil {
			return fail("harness: cannot restart the manager: %v", err)
		}
		class("restarted")
	} else if liveIndex >= 0 {
		if msg := checkListing(c, env, ids[liveIndex], &v); msg != "" {
			return fail("%s", msg)
		}
		if c.LiveNext != nil {
			// A second cycle over different content, then a second listing.
			current.Store(c.LiveNext)
			if err := env.Flush(ids[liveIndex], 2*time.Minute); err != nil {
				le := ""
				if st := env.State(ids[liveIndex]); st != nil {
					le = st.LastError + " / " + st.Status.String()
				}
				ev.Inconclusive("C40: the live session's second cycle did not complete: %v (%s)", err, le)
				class("inconclusive")
				return v
			}
			second := *c
			second.Live = c.LiveNext
			if msg := checkListing(&second, env, ids[liveIndex], &v); msg != "" {
				return fail("after a second cycle with different content: %s", msg)
			}
			class("listing/second-cycle")
		}
	}

	// Queries.
	for qi, q := range c.Queries {
		sel := &selection.Selection{}
		switch {
		case q.All:
			sel.All = true
			class("query/all")
		case len(q.Specs) > 0:
			for _, s := range q.Specs {
				text := s.resolve(c.Sessions, ids)
				if text == "" {
					text = "unnamed"
				}
				sel.Specifications = append(sel.Specifications, text)
			}
			class("query/specifications")
		case q.RawSelector != "":
			sel.LabelSelector = q.RawSelector
			class("query/malformed-selector")
		default:
			sel.LabelSelector = renderSelector(q.Selector)
			class("query/selector")
		}
		if err := sel.EnsureValid(); err != nil {
			// Not a selection a client can send.
			class("query/not-sendable")
			continue
		}
		want, refused := expectedSelection(modelQuery(q, sel), c.Sessions, ids)
		ctx, cancel := context.WithTimeout(context.Background(), time.Minute)
		_, states, err := env.Manager.List(ctx, sel, 0)
		cancel()
		if refused {
			class("query/expected-refusal")
			if err == nil {
				return fail("query %d %s: must be refused (a specification matches no session, or the selector is malformed) but returned %d sessions", qi, describeSelection(sel), len(states))
			}
			continue
		}
		if err != nil {
			return fail("query %d %s: refused with %q although it selects sessions %v", qi, describeSelection(sel), err, want)
		}
		// Exactly the expected sessions.
		got := map[string]int{}
		for _, st := range states {
			got[st.Session.Identifier]++
		}
		for _, i := range want {
			if got[ids[i]] != 1 {
				return fail("query %d %s: session %d (%s, name %q, labels %v) must be selected exactly once, listed %d times", qi, describeSelection(sel), i, ids[i], c.Sessions[i].Name, c.Sessions[i].Labels, got[ids[i]])
			}
			delete(got, ids[i])
		}
		if len(got) != 0 {
			return fail("query %d %s: sessions %v are listed but do not match", qi, describeSelection(sel), got)
		}
		// Ordered by creation time.
		for k := 1; k < len(states); k++ {
			p, n := states[k-1].Session.CreationTime, states[k].Session.CreationTime
			if p.Seconds > n.Seconds || (p.Seconds == n.Seconds && p.Nanos > n.Nanos) {
				return fail("query %d %s: listing not ordered by creation time at position %d", qi, describeSelection(sel), k)
			}
		}
		if len(want) > 0 && len(want) < len(c.Sessions) {
			v.NonTrivial = true
			class("query/proper-subset")
		} else if len(want) == 0 {
			class("query/empty-result")
		} else {
			class("query/everything")
		}
	}
	return v
}

// modelQuery returns the query as the model should see it (specification
// texts resolved and substituted exactly as sent).
func modelQuery(q Query, sent *selection.Selection) Query {
	if len(q.Specs) == 0 {
		return q
	}
	m := Query{}
	for _, text := range sent.Specifications {
		m.Specs = append(m.Specs, Spec{Kind: "literal", Text: text})
	}
	return m
}

func describeSelection(s *selection.Selection) string {
	switch {
	case s.All:
		return "all"
	case len(s.Specifications) > 0:
		return fmt.Sprintf("specifications %q", s.Specifications)
	default:
		return fmt.Sprintf("selector %q", s.LabelSelector)
	}
}

// checkListing compares the live session's listed state with the model.
func checkListing(c *Case, env *sess.Env, id string, v *Verdict) string {
	ctx, cancel := context.WithTimeout(context.Background(), time.Minute)
	defer cancel()
	_, states, err := env.Manager.List(ctx, &selection.Selection{Specifications: []string{id}}, 0)
	if err != nil || len(states) != 1 {
		return fmt.Sprintf("listing the live session by identifier: %d states, error %v", len(states), err)
	}
	st := states[0]
	want := c.Live.expectation()

	// Conflicts.
	shown, excluded := truncate(len(want.Conflicts))
	var roots []string
	for _, conflict := range st.Conflicts {
		roots = append(roots, conflict.Root)
	}
	if fmt.Sprint(roots) != fmt.Sprint(want.Conflicts[:shown]) || len(roots) != shown {
		return fmt.Sprintf("conflicts listed at %q, specified (depth-first order, first %d of %d) %q", roots, listLimit, len(want.Conflicts), want.Conflicts[:shown])
	}
	if st.ExcludedConflicts != excluded {
		return fmt.Sprintf("%d conflicts exist and %d are listed, but %d are reported as left out", len(want.Conflicts), len(roots), st.ExcludedConflicts)
	}
	for _, conflict := range st.Conflicts {
		if len(conflict.AlphaChanges) == 0 || len(conflict.BetaChanges) == 0 {
			return fmt.Sprintf("conflict at %q is listed without changes on both sides", conflict.Root)
		}
		for _, change := range append(append([]*core.Change{}, conflict.AlphaChanges...), conflict.BetaChanges...) {
			if hasContents(change.Old) || hasContents(change.New) {
				return fmt.Sprintf("conflict at %q is listed with directory contents (not slim) in the change at %q", conflict.Root, change.Path)
			}
		}
		if want.DirectoryConflicts[conflict.Root] {
			if len(conflict.AlphaChanges) != 1 || conflict.AlphaChanges[0].New == nil || conflict.AlphaChanges[0].New.Kind != core.EntryKind_Directory {
				return fmt.Sprintf("conflict at %q must show alpha's new directory, shows %v", conflict.Root, conflict.AlphaChanges)
			}
		}
	}

	// Problems.
	for _, list := range []struct {
		name     string
		got      []*core.Problem
		excluded uint64
		want     []Prob
	}{
		{"alpha scan problems", st.AlphaState.ScanProblems, st.AlphaState.ExcludedScanProblems, want.AlphaScan},
		{"beta scan problems", st.BetaState.ScanProblems, st.BetaState.ExcludedScanProblems, want.BetaScan},
		{"alpha transition problems", st.AlphaState.TransitionProblems, st.AlphaState.ExcludedTransitionProblems, want.AlphaTransition},
		{"beta transition problems", st.BetaState.TransitionProblems, st.BetaState.ExcludedTransitionProblems, want.BetaTransition},
	} {
		shown, excluded := truncate(len(list.want))
		if !sameProblems(list.got, list.want[:shown]) {
			return fmt.Sprintf("%s listed as %v, specified (depth-first order, first %d of %d) %v", list.name, plainProblems(list.got), listLimit, len(list.want), list.want[:shown])
		}
		if list.excluded != excluded {
			return fmt.Sprintf("%s: %d exist and %d are listed, but %d are reported as left out", list.name, len(list.want), len(list.got), list.excluded)
		}
		if len(list.want) > listLimit {
			v.Classes = append(v.Classes, "listing/truncated")
		}
		if len(list.want) > 1 {
			v.NonTrivial = true
		}
	}
	if len(want.Conflicts) > listLimit {
		v.Classes = append(v.Classes, "listing/truncated")
	}
	if len(want.Conflicts) > 1 {
		v.NonTrivial = true
	}
	v.Classes = append(v.Classes, "listing/checked")
	if st.Status != synchronization.Status_Watching && st.Status != synchronization.Status_Saving {
		v.Classes = append(v.Classes, "listing/status-"+st.Status.String())
	}
	return ""
}
