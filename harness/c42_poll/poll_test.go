// Package c42_poll decides C42: poll-based watching never serves a stale
// snapshot and always notices changes.
package c42_poll

import (
	"context"
	"fmt"
	"os"
	"path/filepath"
	"strings"
	"sync"
	"testing"
	"time"

	"pgregory.net/rapid"

	"github.com/mutagen-io/mutagen/pkg/filesystem"
	"github.com/mutagen-io/mutagen/pkg/identifier"
	"github.com/mutagen-io/mutagen/pkg/logging"
	"github.com/mutagen-io/mutagen/pkg/synchronization"
	"github.com/mutagen-io/mutagen/pkg/synchronization/core"
	"github.com/mutagen-io/mutagen/pkg/synchronization/endpoint/local"

	"verif/kit/disk"
	"verif/kit/ev"
	"verif/kit/sess"
	"verif/kit/tree"
)

const prop = "C42"

// ClassReversalAfterScan is the class of histories in which an external edit
// exactly undoes what a transition did, after the scan that followed the
// transition and before the next polling tick.
const ClassReversalAfterScan = "exact-reversal-after-post-transition-scan"

// Step is one step of a polling history.
type Step struct {
	Op   string `json:"op"` // sleep, scan, transition-create, transition-remove, external-create, external-remove, reverse, expect-poll
	Name string `json:"name,omitempty"`
	Ms   int    `json:"ms,omitempty"`
}

// Case is a watch mode plus a history.
type Case struct {
	Portable bool    `json:"portable_mode"` // false: force-poll
	Steps    []*Step `json:"steps"`
}

const interval = time.Second
const notifyBound = 2*interval + 1500*time.Millisecond

type run struct {
	violation  string
	timing     bool // the violation rests on a timing bound
	classes    []string
	nontrivial bool
}

var scanOpts = disk.ScanOpts{SymlinkMode: core.SymbolicLinkMode_SymbolicLinkModePortable, PermMode: core.PermissionsMode_PermissionsModePortable}

// slowDown delays the creation of directories named slow-*: such transitions
// take longer than a polling interval.
func slowDown() func() {
	filesystem.VerifSetInjector(func(op, path string) error {
		if op == "mkdirat" && strings.HasPrefix(filepath.Base(path), "slow-") {
			time.Sleep(1300 * time.Millisecond)
		}
		return nil
	})
	return func() { filesystem.VerifSetInjector(nil) }
}

func execute(c *Case, dir string) (r run) {
	root := filepath.Join(dir, "root")
	os.MkdirAll(filepath.Join(root, "keep"), 0o755)
	os.WriteFile(filepath.Join(root, "keep", "file"), []byte("x"), 0o644)
	id, err := identifier.New(identifier.PrefixSynchronization)
	if err != nil {
		return
	}
	cfg := &synchronization.Configuration{
		SynchronizationMode:  core.SynchronizationMode_SynchronizationModeTwoWaySafe,
		WatchMode:            synchronization.WatchMode_WatchModeForcePoll,
		WatchPollingInterval: 1,
	}
	if c.Portable {
		cfg.WatchMode = synchronization.WatchMode_WatchModePortable
	}
	ep, err := local.NewEndpoint(logging.NewLogger(logging.LevelDisabled, os.Stderr), root, id, synchronization.Version_Version1, cfg, false)
	if err != nil {
		r.violation = fmt.Sprintf("cannot create endpoint: %v", err)
		return
	}
	defer ep.Shutdown()
	ctx := context.Background()

	// A stand-in for the controller: whenever Poll returns it scans, and what
	// the scan returns becomes its belief about the disk. Scan and Transition
	// are serialised (the Endpoint interface is not concurrent apart from Poll).
	var mu sync.Mutex // guards endpoint Scan/Transition, believed
	var believed *core.Entry
	var notifications int
	pctx, pcancel := context.WithCancel(ctx)
	var wg sync.WaitGroup
	wg.Add(1)
	go func() {
		defer wg.Done()
		for {
			if err := ep.Poll(pctx); err != nil || pctx.Err() != nil {
				return
			}
			mu.Lock()
			notifications++
			if snap, err, _ := ep.Scan(ctx, nil, false); err == nil {
				believed = snap.Content
			}
			mu.Unlock()
		}
	}()
	defer wg.Wait()
	defer pcancel()

	var lastTransition *Step
	// scan is a foreground scan: nothing else edits the disk while it runs, so
	// its result must describe the disk exactly.
	scanLocked := func() string {
		snap, err, _ := ep.Scan(ctx, nil, false)
		if err != nil {
			return fmt.Sprintf("scan fails: %v", err)
		}
		obs, _ := disk.Observe(root)
		want := disk.Expect(obs, scanOpts)
		if ok, d := disk.EqualModuloProblems(snap.Content, want); !ok {
			return fmt.Sprintf("scan returned a snapshot that does not describe the disk: %s\n snapshot %s\n disk     %s", d, tree.Render(snap.Content), tree.Render(want))
		}
		believed = snap.Content
		return ""
	}
	scan := func() string {
		mu.Lock()
		defer mu.Unlock()
		return scanLocked()
	}
	if v := scan(); v != "" {
		r.violation = v
		return
	}
	for si, st := range c.Steps {
		full := filepath.Join(root, st.Name)
		switch st.Op {
		case "sleep":
			time.Sleep(time.Duration(st.Ms) * time.Millisecond)
		case "scan":
			if v := scan(); v != "" {
				r.violation = fmt.Sprintf("step %d: %s", si, v)
				return
			}
		case "transition-create", "transition-remove", "transition-remove-partial":
			mu.Lock()
			// Transitions need a preceding scan.
			if v := scanLocked(); v != "" {
				mu.Unlock()
				r.violation = fmt.Sprintf("step %d: %s", si, v)
				return
			}
			old := tree.At(believed, st.Name)
			var ch *core.Change
			if st.Op == "transition-create" {
				if old != nil {
					mu.Unlock()
					continue
				}
				ch = &core.Change{Path: st.Name, New: tree.D(map[string]*core.Entry{"l": tree.L("keep")})}
			} else {
				if old == nil || tree.HasUnsync(old) || st.Name == "keep" {
					mu.Unlock()
					continue
				}
				ch = &core.Change{Path: st.Name, Old: old}
				if st.Op == "transition-remove-partial" && old.Kind == tree.KDir {
					// Content the plan does not know about appears after the
					// scan: the removal can only be partial.
					os.WriteFile(filepath.Join(full, "intruder"), []byte("created after the scan"), 0o644)
					r.classes = append(r.classes, "partial-directory-removal")
				}
			}
			results, _, _, err := ep.Transition(ctx, []*core.Change{ch})
			if err != nil {
				mu.Unlock()
				r.violation = fmt.Sprintf("step %d: transition fails: %v", si, err)
				return
			}
			// The controller knows what its transition did.
			believed, _ = tree.ApplyModel(believed, ch.Path, results[0])
			mu.Unlock()
			if tree.DeepEqual(results[0], ch.New) {
				lastTransition = st
				r.classes = append(r.classes, "transition-changed-disk")
			}
		case "external-create":
			if _, err := os.Lstat(full); err == nil {
				continue
			}
			os.Mkdir(full, 0o755)
			os.Symlink("keep", filepath.Join(full, "l"))
			lastTransition = nil
		case "external-remove":
			if st.Name == "keep" {
				continue
			}
			if _, err := os.Lstat(full); err != nil {
				continue
			}
			os.RemoveAll(full)
			lastTransition = nil
		case "reverse":
			// Undo exactly what the last transition did.
			if lastTransition == nil {
				continue
			}
			p := filepath.Join(root, lastTransition.Name)
			if lastTransition.Op == "transition-create" {
				os.RemoveAll(p)
			} else {
				os.Mkdir(p, 0o755)
				os.Symlink("keep", filepath.Join(p, "l"))
			}
			r.classes = append(r.classes, ClassReversalAfterScan)
			r.nontrivial = true
			lastTransition = nil
		case "expect-poll":
			// Within two polling intervals (+ slack) the controller's belief -
			// the result of the scan it runs after every poll notification, or
			// of its own transitions - must equal the disk.
			obs, _ := disk.Observe(root)
			now := disk.Expect(obs, scanOpts)
			mu.Lock()
			same, _ := disk.EqualModuloProblems(believed, now)
			mu.Unlock()
			if !same {
				r.classes = append(r.classes, "disk-differs-from-belief")
			}
			deadline := time.Now().Add(notifyBound)
			for !same && time.Now().Before(deadline) {
				time.Sleep(20 * time.Millisecond)
				mu.Lock()
				same, _ = disk.EqualModuloProblems(believed, now)
				mu.Unlock()
			}
			if !same {
				mu.Lock()
				bel, n := tree.Render(believed), notifications
				mu.Unlock()
				r.violation = fmt.Sprintf("step %d: the disk (%s) differs from what the controller last learned from scans and its own transitions (%s) and no poll notification led to a correcting scan within %v (%d notifications so far)", si, tree.Render(now), bel, notifyBound, n)
				r.timing = true
				return
			}
			// The staleness clause: a foreground scan now must describe the disk.
			if v := scan(); v != "" {
				r.violation = fmt.Sprintf("step %d: %s", si, v)
				return
			}
		}
	}
	return
}

func hasReversal(c *Case) bool {
	for _, s := range c.Steps {
		if s.Op == "reverse" {
			return true
		}
	}
	return false
}

// judge runs the case; timing-based failures are re-executed and reported
// only if they fail every time.
func judge(c *Case, base string, n *int) (r run, inconclusive bool) {
	for attempt := 0; attempt < 3; attempt++ {
		*n++
		dir := filepath.Join(base, fmt.Sprintf("run%d", *n))
		os.MkdirAll(dir, 0o700)
		r = execute(c, dir)
		os.RemoveAll(dir)
		if r.violation == "" || !r.timing {
			return r, false
		}
	}
	return r, false
}

var names = []string{"x", "y"}

func drawCase(rt *rapid.T, allowReversal bool) *Case {
	c := &Case{Portable: rapid.IntRange(0, 2).Draw(rt, "portable") == 0}
	// A short warm-up so that the poller's first scan is over.
	c.Steps = append(c.Steps, &Step{Op: "sleep", Ms: rapid.SampledFrom([]int{50, 300, 1100}).Draw(rt, "warmup")})
	for n := rapid.IntRange(2, 5).Draw(rt, "blocks"); n > 0; n-- {
		name := rapid.SampledFrom(names).Draw(rt, "name")
		kinds := []string{"external", "transition", "transition-then-external-other", "slow-transition", "partial-removal"}
		if allowReversal {
			kinds = append(kinds, "transition-then-reversal", "transition-then-reversal", "two-transitions-then-reversal", "two-transitions-then-reversal")
		}
		switch rapid.SampledFrom(kinds).Draw(rt, "block") {
		case "external":
			c.Steps = append(c.Steps, &Step{Op: rapid.SampledFrom([]string{"external-create", "external-remove"}).Draw(rt, "ext"), Name: name})
		case "transition":
			c.Steps = append(c.Steps, &Step{Op: rapid.SampledFrom([]string{"transition-create", "transition-remove"}).Draw(rt, "tr"), Name: name})
		case "partial-removal":
			// A directory removal that can only remove part of the directory
			// (unknown content appeared after the scan), scanned right after.
			c.Steps = append(c.Steps, &Step{Op: "external-create", Name: name}, &Step{Op: "expect-poll"},
				&Step{Op: "transition-remove-partial", Name: name}, &Step{Op: "scan"})
		case "slow-transition":
			// A transition that takes longer than a polling interval (its
			// directory creation is delayed through the filesystem hook), so
			// a polling scan runs while it is in flight; scanned right after.
			c.Steps = append(c.Steps, &Step{Op: "transition-create", Name: "slow-" + name})
			c.Steps = append(c.Steps, &Step{Op: "scan"})
		case "transition-then-external-other":
			c.Steps = append(c.Steps, &Step{Op: rapid.SampledFrom([]string{"transition-create", "transition-remove"}).Draw(rt, "tr"), Name: name})
			c.Steps = append(c.Steps, &Step{Op: "sleep", Ms: rapid.SampledFrom([]int{0, 100, 600}).Draw(rt, "gap")})
			other := "x"
			if name == "x" {
				other = "y"
			}
			c.Steps = append(c.Steps, &Step{Op: rapid.SampledFrom([]string{"external-create", "external-remove"}).Draw(rt, "ext"), Name: other})
		case "two-transitions-then-reversal":
			// Two changing transitions within one polling interval (the
			// controller scans before each), the second one reversed
			// externally before the poller scans again.
			other := "x"
			if name == "x" {
				other = "y"
			}
			c.Steps = append(c.Steps, &Step{Op: rapid.SampledFrom([]string{"transition-create", "transition-remove"}).Draw(rt, "tr"), Name: other})
			c.Steps = append(c.Steps, &Step{Op: rapid.SampledFrom([]string{"transition-create", "transition-remove"}).Draw(rt, "tr2"), Name: name})
			if gap := rapid.SampledFrom([]int{0, 0, 50}).Draw(rt, "gap"); gap > 0 {
				c.Steps = append(c.Steps, &Step{Op: "sleep", Ms: gap})
			}
			c.Steps = append(c.Steps, &Step{Op: "reverse"})
		case "transition-then-reversal":
			c.Steps = append(c.Steps, &Step{Op: rapid.SampledFrom([]string{"transition-create", "transition-remove"}).Draw(rt, "tr"), Name: name})
			if gap := rapid.SampledFrom([]int{0, 0, 50, 300}).Draw(rt, "gap"); gap > 0 {
				c.Steps = append(c.Steps, &Step{Op: "sleep", Ms: gap})
			}
			c.Steps = append(c.Steps, &Step{Op: "reverse"})
		}
		c.Steps = append(c.Steps, &Step{Op: "expect-poll"})
	}
	return c
}

func render(c *Case) string {
	var s []string
	for _, st := range c.Steps {
		x := st.Op
		if st.Name != "" {
			x += " " + st.Name
		}
		if st.Ms != 0 {
			x += fmt.Sprintf(" %dms", st.Ms)
		}
		s = append(s, x)
	}
	return fmt.Sprintf("portable=%v: %s", c.Portable, strings.Join(s, "; "))
}

func TestPollHistories(t *testing.T) {
	if ev.ReplayPath() != "" {
		t.Skip()
	}
	rec := ev.New(t, prop, "poll-histories", "rapid: a real local endpoint with a 1 s polling interval (force-poll, or portable = poll + non-recursive watcher) and a background Poll loop; 2-5 blocks of: external create/remove, transition create/remove (each followed by an immediate scan that must equal an independent walk of the disk), transition followed by an external edit elsewhere, a directory removal made partial by content that appears after the scan (scanned right after), a transition delayed past a polling interval (through the filesystem hook) and scanned right after, transition followed - after the post-transition scan - by an external exact reversal; a stand-in controller scans after every poll notification; after each block its belief (last scan result, updated by its own transition results) must equal the disk within 2 intervals + 1.5 s (re-executed three times before reporting), and a foreground scan must then equal an independent walk; non-trivial: the history contains transition -> scan -> exact reversal")
	base := t.TempDir()
	env, err := sess.NewEnv(filepath.Join(base, "data"))
	if err != nil {
		t.Fatal(err)
	}
	defer env.Close()
	defer slowDown()()
	_, known := ev.KnownClass(prop, ClassReversalAfterScan)
	n := 0
	// Histories run in real time (seconds each): several per rapid case, in
	// parallel, all drawn from the same rapid stream.
	ev.Check(t, rec, 4, 60, func(rt *rapid.T) {
		var cases []*Case
		for i := 0; i < 6; i++ {
			allow := !known
			cases = append(cases, drawCase(rt, allow))
		}
		if known {
			rec.Excluded(ClassReversalAfterScan)
		}
		results := make([]run, len(cases))
		var wg sync.WaitGroup
		var nmu sync.Mutex
		for i, c := range cases {
			wg.Add(1)
			go func(i int, c *Case) {
				defer wg.Done()
				nmu.Lock()
				n += 10
				local := n
				nmu.Unlock()
				results[i], _ = judge(c, base, &local)
			}(i, c)
		}
		wg.Wait()
		for i, c := range cases {
			rec.Eval()
			for _, cl := range results[i].classes {
				rec.Class(cl)
			}
			if results[i].violation != "" {
				ev.Failf(rt, rec, c, "%s", results[i].violation)
			}
			nt := results[i].nontrivial
			if known {
				// With the reversal class excluded, a history is non-trivial
				// when a transition changed the disk and an external edit
				// followed.
				for _, cl := range results[i].classes {
					if cl == "disk-differs-from-belief" {
						nt = true
					}
				}
			}
			if nt {
				rec.NonTrivial(ev.Hash(render(c)))
				if rec.WantSample() {
					rec.Sample(render(c))
				}
			}
		}
	})
}

var canonical = &Case{Steps: []*Step{
	{Op: "sleep", Ms: 300},
	{Op: "transition-create", Name: "x"},
	{Op: "reverse"},
	{Op: "expect-poll"},
}}

func TestKnownFindings(t *testing.T) {
	if ev.ReplayPath() != "" {
		t.Skip()
	}
	f, known := ev.KnownClass(prop, ClassReversalAfterScan)
	if !known {
		t.Skip("no known finding listed")
	}
	rec := ev.New(t, prop, "known-findings", "canonical instance of each listed known-finding class")
	rec.Eval()
	n := 0
	r, _ := judge(canonical, t.TempDir(), &n)
	if r.violation != "" {
		rec.ReportKnown(f)
		rec.Class("still-failing/" + ClassReversalAfterScan)
	} else {
		rec.Note("no-longer-reproduces/"+ClassReversalAfterScan, "the canonical instance now satisfies the property")
	}
}

func TestReplay(t *testing.T) {
	if ev.ReplayPath() == "" {
		t.Skip()
	}
	var c Case
	if _, err := ev.LoadReplay(ev.ReplayPath(), &c); err != nil {
		t.Fatal(err)
	}
	rec := ev.New(t, prop, "replay", "replay of a saved case")
	rec.Eval()
	base := t.TempDir()
	env, err := sess.NewEnv(filepath.Join(base, "data"))
	if err != nil {
		t.Fatal(err)
	}
	defer env.Close()
	defer slowDown()()
	n := 0
	if r, _ := judge(&c, base, &n); r.violation != "" {
		ev.FailTB(t, rec, &c, "%s", r.violation)
	}
}
