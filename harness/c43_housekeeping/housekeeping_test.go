package c43_housekeeping

import (
	"encoding/json"
	"fmt"
	"os"
	"path/filepath"
	"strings"
	"testing"
	"time"

	"pgregory.net/rapid"

	"github.com/mutagen-io/mutagen/pkg/housekeeping"

	"verif/kit/ev"
)

const prop = "C43"

func TestMain(m *testing.M) {
	// Housekeeping of agents is switched off inside sidecar containers; the
	// property is about the normal environment.
	os.Unsetenv("MUTAGEN_SIDECAR")
	os.Exit(m.Run())
}

const day = int64(24 * 3600)

// drawAge draws an age (seconds) around a threshold of limitDays days: the
// threshold plus or minus 10 s ... 60 d, occasionally inside the +-10 s band
// (no verdict there), occasionally in the future.
func drawAge(rt *rapid.T, label string, limitDays int64) int64 {
	limit := limitDays * day
	deltas := []int64{11, 60, 3600, day, 3 * day, 6 * day, 10 * day, 22 * day, 24 * day, 60 * day}
	switch rapid.IntRange(0, 19).Draw(rt, label+".class") {
	case 0:
		return limit + rapid.Int64Range(-9, 9).Draw(rt, label+".band")
	case 1:
		return -rapid.Int64Range(1, 3600).Draw(rt, label+".future")
	case 2:
		return rapid.Int64Range(0, 120).Draw(rt, label+".fresh")
	}
	d := rapid.SampledFrom(deltas).Draw(rt, label+".delta")
	if rapid.Bool().Draw(rt, label+".older") {
		return limit + d
	}
	return limit - d
}

var names = []string{"v0.18.1", "0.17.0", "sync_abc_alpha", "sync_abc_beta", "x", "with space", ".hidden", ".mutagen-temporary-1", "caches", "ünï", "a-b_c"}

func drawNested(rt *rapid.T, label string, minAge int64, depth int) []*Node {
	var out []*Node
	n := rapid.IntRange(0, 3).Draw(rt, label+".n")
	for i := 0; i < n; i++ {
		age := minAge + rapid.Int64Range(0, 5*day).Draw(rt, fmt.Sprintf("%s.%d.age", label, i))
		c := &Node{Name: fmt.Sprintf("n%d", i), Kind: "file", Seed: rapid.Uint64().Draw(rt, fmt.Sprintf("%s.%d.seed", label, i)),
			Size: rapid.IntRange(0, 300).Draw(rt, fmt.Sprintf("%s.%d.size", label, i)), MAge: age, AAge: age}
		if depth > 0 && rapid.IntRange(0, 2).Draw(rt, fmt.Sprintf("%s.%d.dir", label, i)) == 0 {
			c.Kind, c.Size = "dir", 0
			c.Children = drawNested(rt, fmt.Sprintf("%s.%d", label, i), age, depth-1)
		}
		out = append(out, c)
	}
	return out
}

func drawItem(rt *rapid.T, idx int, used map[string]bool) *Item {
	label := fmt.Sprintf("item%d", idx)
	area := rapid.SampledFrom([]string{"agents", "agents", "agents", "caches", "caches", "caches", "staging", "staging", "staging", "other"}).Draw(rt, label+".area")
	var name string
	for try := 0; ; try++ {
		name = rapid.SampledFrom(names).Draw(rt, fmt.Sprintf("%s.name%d", label, try))
		if try > 3 {
			name = fmt.Sprintf("%s-%d", name, idx)
		}
		if !used[area+"/"+name] {
			break
		}
	}
	used[area+"/"+name] = true
	it := &Item{Area: area}
	n := &Node{Name: name}
	it.Node = n
	seed := rapid.Uint64().Draw(rt, label+".seed")
	switch area {
	case "agents":
		it.Shape = rapid.SampledFrom([]string{"install", "install", "install", "install", "install", "install-binary-symlink", "version-symlink", "no-binary", "plain-file"}).Draw(rt, label+".shape")
		switch it.Shape {
		case "install":
			bin := &Node{Name: agentBinaryName, Kind: "file", Seed: seed, Size: 500,
				AAge: drawAge(rt, label+".atime", 30), MAge: drawAge(rt, label+".mtime", 30)}
			if rapid.IntRange(0, 2).Draw(rt, label+".install-age") == 0 {
				// Typical: installed long ago.
				bin.MAge = 30*day + rapid.Int64Range(0, 100*day).Draw(rt, label+".installed")
			}
			n.Kind = "dir"
			n.MAge, n.AAge = bin.MAge, bin.MAge
			n.Children = append([]*Node{bin}, drawNested(rt, label+".extra", 0, 1)...)
		case "install-binary-symlink":
			n.Kind = "dir"
			n.MAge, n.AAge = 3600, 3600
			which := rapid.SampledFrom([]string{"old", "young"}).Draw(rt, label+".target")
			n.Children = []*Node{{Name: agentBinaryName, Kind: "symlink", Target: "${OUT}/agentdir-" + which + "/" + agentBinaryName}}
		case "version-symlink":
			n.Kind = "symlink"
			n.Target = "${OUT}/agentdir-" + rapid.SampledFrom([]string{"old", "young"}).Draw(rt, label+".target")
		case "no-binary":
			n.Kind = "dir"
			n.MAge = drawAge(rt, label+".mtime", 30)
			n.AAge = n.MAge
			n.Children = drawNested(rt, label+".extra", n.MAge, 1)
		case "plain-file":
			n.Kind, n.Seed, n.Size = "file", seed, 10
			n.MAge = drawAge(rt, label+".mtime", 30)
			n.AAge = drawAge(rt, label+".atime", 30)
		}
	case "caches":
		it.Shape = rapid.SampledFrom([]string{"cache-file", "cache-file", "cache-file", "cache-file", "cache-file", "symlink", "dangling", "empty-dir", "nonempty-dir"}).Draw(rt, label+".shape")
		switch it.Shape {
		case "cache-file":
			n.Kind, n.Seed, n.Size = "file", seed, rapid.IntRange(0, 2000).Draw(rt, label+".size")
			n.MAge = drawAge(rt, label+".mtime", 7)
			// Caches are read on every session start: access time is unrelated.
			n.AAge = drawAge(rt, label+".atime", 7)
		case "symlink":
			n.Kind = "symlink"
			n.Target = "${OUT}/file-" + rapid.SampledFrom([]string{"old", "young"}).Draw(rt, label+".target")
			n.LinkAge = rapid.SampledFrom([]int64{0, 0, 30 * 24 * 3600, 90 * 24 * 3600}).Draw(rt, label+".link_age")
		case "dangling":
			n.Kind, n.Target = "symlink", "${OUT}/missing"
			n.LinkAge = rapid.SampledFrom([]int64{0, 0, 30 * 24 * 3600}).Draw(rt, label+".link_age")
		case "empty-dir", "nonempty-dir":
			n.Kind = "dir"
			n.MAge = drawAge(rt, label+".mtime", 7)
			n.AAge = n.MAge
			if it.Shape == "nonempty-dir" {
				n.Children = []*Node{{Name: "f", Kind: "file", Seed: seed, Size: 5, MAge: n.MAge, AAge: n.MAge}}
			}
		}
	case "staging":
		it.Shape = rapid.SampledFrom([]string{"root", "root", "root", "root", "root", "root-nested-younger", "plain-file", "symlink", "dangling"}).Draw(rt, label+".shape")
		switch it.Shape {
		case "root", "root-nested-younger":
			n.Kind = "dir"
			n.MAge = drawAge(rt, label+".mtime", 7)
			n.AAge = drawAge(rt, label+".atime", 7)
			if it.Shape == "root" {
				n.Children = drawNested(rt, label+".nested", max(n.MAge, 0), 2)
			} else {
				n.Children = []*Node{{Name: "young", Kind: "file", Seed: seed, Size: 7, MAge: 60, AAge: 60}}
			}
		case "plain-file":
			n.Kind, n.Seed, n.Size = "file", seed, 10
			n.MAge = drawAge(rt, label+".mtime", 7)
			n.AAge = n.MAge
		case "symlink":
			n.Kind = "symlink"
			n.Target = "${OUT}/dir-" + rapid.SampledFrom([]string{"old", "young"}).Draw(rt, label+".target")
			n.LinkAge = rapid.SampledFrom([]int64{0, 0, 30 * 24 * 3600, 90 * 24 * 3600}).Draw(rt, label+".link_age")
		case "dangling":
			n.Kind, n.Target = "symlink", "${OUT}/missing"
			n.LinkAge = rapid.SampledFrom([]int64{0, 0, 30 * 24 * 3600}).Draw(rt, label+".link_age")
		}
	default:
		it.Area = rapid.SampledFrom([]string{"sessions", "archives", "daemon", "forwarding", "stray"}).Draw(rt, label+".other")
		if used[it.Area+"/"+name] {
			n.Name = fmt.Sprintf("%s-%d", name, idx)
		}
		used[it.Area+"/"+n.Name] = true
		it.Shape = "other"
		// Old things elsewhere in the data directory: never to be touched.
		age := 8*day + rapid.Int64Range(0, 400*day).Draw(rt, label+".age")
		if rapid.Bool().Draw(rt, label+".dir") {
			n.Kind, n.MAge, n.AAge = "dir", age, age
			n.Children = drawNested(rt, label+".nested", age, 1)
		} else {
			n.Kind, n.Seed, n.Size, n.MAge, n.AAge = "file", seed, 20, age, age
		}
	}
	return it
}

func drawCase(rt *rapid.T) *Case {
	c := &Case{}
	used := map[string]bool{}
	n := rapid.IntRange(1, 10).Draw(rt, "items")
	for i := 0; i < n; i++ {
		c.Items = append(c.Items, drawItem(rt, i, used))
	}
	// Areas exist even when empty, most of the time.
	for _, a := range []string{"agents", "caches", "staging"} {
		if rapid.IntRange(0, 7).Draw(rt, "create."+a) != 0 {
			c.CreateAreas = append(c.CreateAreas, a)
		}
	}
	return c
}

// Result is what judge reports besides the verdict.
type Result struct {
	Violation string
	Expect    map[string]int
	Classes   []string
}

// judge materialises the case under root, runs Housekeep and applies the
// oracle.
func judge(c *Case, root string) (res Result) {
	res.Expect = map[string]int{}
	data := filepath.Join(root, "data")
	outside := filepath.Join(root, "outside")
	fail := func(format string, args ...any) Result {
		res.Violation = fmt.Sprintf(format, args...)
		return res
	}
	t0 := time.Now()
	ref := t0
	if err := os.MkdirAll(data, 0o700); err != nil {
		return fail("harness: %v", err)
	}
	if err := os.MkdirAll(outside, 0o700); err != nil {
		return fail("harness: %v", err)
	}
	out := outsideTree()
	for _, n := range out {
		if err := materialise(n, outside, outside, ref); err != nil {
			return fail("harness: %v", err)
		}
	}
	for _, a := range c.CreateAreas {
		os.MkdirAll(filepath.Join(data, a), 0o700)
	}
	for _, it := range c.Items {
		dir := filepath.Join(data, it.Area)
		if err := os.MkdirAll(dir, 0o700); err != nil {
			return fail("harness: %v", err)
		}
		if err := materialise(it.Node, dir, outside, ref); err != nil {
			return fail("harness: %v", err)
		}
	}
	beforeData, err := snapshot(data)
	if err != nil {
		return fail("harness: %v", err)
	}
	beforeOut, err := snapshot(outside)
	if err != nil {
		return fail("harness: %v", err)
	}

	os.Setenv("MUTAGEN_DATA_DIRECTORY", data)
	housekeeping.Housekeep()
	os.Unsetenv("MUTAGEN_DATA_DIRECTORY")
	t1 := time.Now()

	afterData, err := snapshot(data)
	if err != nil {
		return fail("harness: %v", err)
	}
	afterOut, err := snapshot(outside)
	if err != nil {
		return fail("harness: %v", err)
	}
	// Nothing outside the data directory is touched.
	if d := diffUnder(beforeOut, afterOut, ""); d != "" {
		return fail("outside the data directory: %s", d)
	}
	for _, n := range out {
		if v := verifyContent(n, outside); v != "" {
			return fail("outside the data directory: %s", v)
		}
	}
	// The area directories themselves stay.
	for k, m := range beforeData {
		if filepath.Dir(k) == "." && m.Mode.IsDir() {
			if _, ok := afterData[k]; !ok {
				return fail("top-level directory %s of the data directory was removed", k)
			}
		}
	}
	for _, it := range c.Items {
		rel := filepath.Join(it.Area, it.Node.Name)
		e := it.Expectation(ref, t0, t1)
		res.Expect[e.String()]++
		res.Classes = append(res.Classes, it.Area+"/"+it.Shape+"/"+e.String())
		_, exists := afterData[rel]
		switch e {
		case MustGo:
			if exists {
				return fail("%s (%s %s) is stale by the statement's thresholds but was not removed", rel, it.Area, it.Shape)
			}
		case MustStay:
			if !exists {
				return fail("%s (%s %s) is recent (or none of housekeeping's business) but was removed", rel, it.Area, it.Shape)
			}
			if d := diffUnder(beforeData, afterData, rel); d != "" {
				return fail("%s (%s %s) must be left alone: %s", rel, it.Area, it.Shape, d)
			}
			if v := verifyContent(it.Node, filepath.Join(data, it.Area)); v != "" {
				return fail("%s must be left alone: %s", rel, v)
			}
		}
	}
	// Nothing new appears anywhere.
	for k := range afterData {
		if _, ok := beforeData[k]; !ok {
			return fail("%s appeared in the data directory", k)
		}
	}
	return res
}

func nonTrivial(r Result) bool {
	return r.Expect["must-go"] > 0 && r.Expect["must-stay"] > 0
}

var caseCounter int

// aborted is set after harness trouble: the run is reported as inconclusive
// (driver exit 2) and the remaining cases are not executed.
var aborted bool

func abort(msg string) {
	if !aborted {
		ev.Inconclusive("C43 harness trouble: %s", msg)
	}
	aborted = true
}

func TestPopulations(t *testing.T) {
	if ev.ReplayPath() != "" {
		t.Skip("replaying")
	}
	rec := ev.New(t, prop, "random-populations",
		"rapid: 1..10 items over agents/caches/staging/other areas of a private data directory: agent installations (binary atime and mtime drawn independently around 30 d), caches and staging roots (mtime around 7 d; offsets 11 s..60 d, band +-10 s without verdict, future stamps), nested contents, symlinks to an outside canary tree (old and young targets; the links themselves brand new or 30-90 days old), dangling links, non-directories in unexpected places, old files in unrelated areas; oracle from the statement's thresholds and the instants measured around the call. Non-trivial: the population holds at least one item that must go and one that must stay")
	base := t.TempDir()
	ev.Check(t, rec, 1000, 8000, func(rt *rapid.T) {
		c := drawCase(rt)
		if aborted {
			return
		}
		caseCounter++
		root := filepath.Join(base, fmt.Sprintf("case-%d", caseCounter))
		defer os.RemoveAll(root)
		res := judge(c, root)
		if strings.HasPrefix(res.Violation, "harness: ") {
			abort(res.Violation)
			return
		}
		rec.Eval()
		if res.Violation != "" {
			ev.Failf(rt, rec, c, "%s", res.Violation)
		}
		for _, cl := range res.Classes {
			rec.Class(cl)
		}
		if nonTrivial(res) {
			raw, _ := json.Marshal(c)
			rec.NonTrivial(ev.Hash(string(raw)))
			if rec.WantSample() && len(c.Items) <= 4 {
				rec.Sample(c)
			}
		}
	})
}

func TestReplay(t *testing.T) {
	if ev.ReplayPath() == "" {
		t.Skip("no replay requested")
	}
	var c Case
	if _, err := ev.LoadReplay(ev.ReplayPath(), &c); err != nil {
		t.Fatalf("cannot load replay: %v", err)
	}
	rec := ev.New(t, prop, "replay", "replay of a saved case")
	res := judge(&c, filepath.Join(t.TempDir(), "case"))
	rec.Eval()
	if strings.HasPrefix(res.Violation, "harness: ") {
		abort(res.Violation)
		t.Skip("harness trouble")
	}
	if res.Violation != "" {
		ev.FailTB(t, rec, &c, "%s", res.Violation)
	}
}
