// Package c43_housekeeping checks C43: housekeeping removes only stale
// artifacts (agent installations unused for more than 30 days, caches and
// staging roots unmodified for more than 7 days), never anything more recent
// and never anything outside the Mutagen data directory.
package c43_housekeeping

import (
	"bytes"
	"crypto/sha1"
	"encoding/hex"
	"fmt"
	"io/fs"
	"os"
	"path/filepath"
	"sort"
	"strings"
	"time"

	"golang.org/x/sys/unix"
)

// The thresholds of the property statement (NOT read from the code).
const (
	agentIdleLimit = 30 * 24 * time.Hour
	cacheAgeLimit  = 7 * 24 * time.Hour
	stagingLimit   = 7 * 24 * time.Hour
)

// agentBinaryName is the name of the agent executable inside an installation
// directory on this platform (documented layout: agents/<version>/mutagen-agent).
const agentBinaryName = "mutagen-agent"

// Node is a filesystem object to materialise. Ages are seconds before the
// reference instant ("now" of the case); negative ages lie in the future.
type Node struct {
	Name     string  `json:"name"`
	Kind     string  `json:"kind"` // "file", "dir", "symlink"
	Seed     uint64  `json:"seed,omitempty"`
	Size     int     `json:"size,omitempty"`
	Target   string  `json:"target,omitempty"` // symlink target; "${OUT}" expands to the outside tree
	MAge     int64   `json:"mage"`             // modification time age (s)
	AAge     int64   `json:"aage"`             // access time age (s)
	Children []*Node `json:"children,omitempty"`
	// LinkAge, for symlinks: age of the link's own timestamps (0: the link is
	// brand new).
	LinkAge int64 `json:"link_age,omitempty"`
}

// Item is one top-level object of an area of the data directory.
type Item struct {
	Area string `json:"area"` // "agents", "caches", "staging", or any other top-level name
	// Shape names the generator class, it drives the expectation:
	//  agents:  install | install-binary-symlink | version-symlink | no-binary | plain-file
	//  caches:  cache-file | symlink | dangling | empty-dir | nonempty-dir
	//  staging: root | root-nested-younger | plain-file | symlink | dangling
	//  other:   other
	Shape string `json:"shape"`
	Node  *Node  `json:"node"`
}

// Case is a population of the data directory.
type Case struct {
	Items []*Item `json:"items"`
	// MissingAreas lists areas that are not even created.
	CreateAreas []string `json:"create_areas"`
}

// Expectation of an item.
type Expect int

const (
	Free Expect = iota // the statement does not decide (ambiguous shapes, band around a threshold)
	MustGo
	MustStay
)

func (e Expect) String() string { return [...]string{"free", "must-go", "must-stay"}[e] }

// Fixed outside ("canary") tree: name -> (kind, age in seconds).
const (
	outsideOldAge   = int64(90 * 24 * 3600)
	outsideYoungAge = int64(3600)
)

// outsideTree returns the canary tree that lives outside the data directory.
func outsideTree() []*Node {
	mk := func(name string, age int64, children ...*Node) *Node {
		kind := "file"
		if children != nil {
			kind = "dir"
		}
		return &Node{Name: name, Kind: kind, Seed: uint64(len(name)) * 977, Size: 100 + len(name), MAge: age, AAge: age, Children: children}
	}
	return []*Node{
		mk("agentdir-old", outsideOldAge, mk(agentBinaryName, outsideOldAge), mk("extra", outsideOldAge)),
		mk("agentdir-young", outsideYoungAge, mk(agentBinaryName, outsideYoungAge)),
		mk("file-old", outsideOldAge),
		mk("file-young", outsideYoungAge),
		mk("dir-old", outsideOldAge, mk("a", outsideOldAge), mk("sub", outsideOldAge, mk("b", outsideOldAge))),
		mk("dir-young", outsideYoungAge, mk("a", outsideYoungAge)),
	}
}

// gen produces n deterministic bytes.
func gen(seed uint64, n int) []byte {
	out := make([]byte, n)
	x := seed*2862933555777941757 + 3037000493
	for i := range out {
		x = x*6364136223846793005 + 1442695040888963407
		out[i] = byte(x >> 56)
	}
	return out
}

// materialise creates n under dir. Times are set in post-order so that
// populating a directory does not disturb the times given to it.
func materialise(n *Node, dir, outside string, now time.Time) error {
	p := filepath.Join(dir, n.Name)
	switch n.Kind {
	case "file":
		if err := os.WriteFile(p, gen(n.Seed, n.Size), 0o600); err != nil {
			return err
		}
	case "dir":
		if err := os.Mkdir(p, 0o700); err != nil {
			return err
		}
		for _, c := range n.Children {
			if err := materialise(c, p, outside, now); err != nil {
				return err
			}
		}
	case "symlink":
		if err := os.Symlink(strings.ReplaceAll(n.Target, "${OUT}", outside), p); err != nil {
			return err
		}
		if n.LinkAge != 0 {
			// The link's own timestamps (os.Chtimes would follow the link).
			t := unix.NsecToTimespec(now.Add(-time.Duration(n.LinkAge) * time.Second).UnixNano())
			return unix.UtimesNanoAt(unix.AT_FDCWD, p, []unix.Timespec{t, t}, unix.AT_SYMLINK_NOFOLLOW)
		}
		return nil
	default:
		return fmt.Errorf("unknown node kind %q", n.Kind)
	}
	return os.Chtimes(p, now.Add(-time.Duration(n.AAge)*time.Second), now.Add(-time.Duration(n.MAge)*time.Second))
}

// meta is what the observer records about one path (no content reads: reading
// would disturb access times before housekeeping runs).
type meta struct {
	Mode   fs.FileMode
	Size   int64
	MTime  int64
	Target string
}

// snapshot walks root with lstat/readlink only.
func snapshot(root string) (map[string]meta, error) {
	out := map[string]meta{}
	err := filepath.Walk(root, func(p string, info fs.FileInfo, err error) error {
		if err != nil {
			return err
		}
		rel, _ := filepath.Rel(root, p)
		m := meta{Mode: info.Mode(), MTime: info.ModTime().UnixNano()}
		if info.Mode().IsRegular() {
			m.Size = info.Size()
		}
		if info.Mode()&fs.ModeSymlink != 0 {
			m.Target, _ = os.Readlink(p)
		}
		out[rel] = m
		return nil
	})
	return out, err
}

// diffUnder compares the entries of two snapshots at or below prefix
// (prefix "" compares everything).
func diffUnder(before, after map[string]meta, prefix string) string {
	in := func(k string) bool {
		return prefix == "" || k == prefix || strings.HasPrefix(k, prefix+string(filepath.Separator))
	}
	var keys []string
	for k := range before {
		if in(k) {
			keys = append(keys, k)
		}
	}
	sort.Strings(keys)
	for _, k := range keys {
		a, ok := after[k]
		if !ok {
			return fmt.Sprintf("%s was removed", k)
		}
		if a != before[k] {
			return fmt.Sprintf("%s changed: before %+v, after %+v", k, before[k], a)
		}
	}
	for k := range after {
		if in(k) {
			if _, ok := before[k]; !ok {
				return fmt.Sprintf("%s appeared", k)
			}
		}
	}
	return ""
}

// verifyContent checks that the files of n (still) hold their generated bytes.
func verifyContent(n *Node, dir string) string {
	p := filepath.Join(dir, n.Name)
	switch n.Kind {
	case "file":
		got, err := os.ReadFile(p)
		if err != nil {
			return fmt.Sprintf("%s unreadable: %v", p, err)
		}
		if !bytes.Equal(got, gen(n.Seed, n.Size)) {
			s := sha1.Sum(got)
			return fmt.Sprintf("%s content changed (%d bytes, sha1 %s)", p, len(got), hex.EncodeToString(s[:4]))
		}
	case "dir":
		for _, c := range n.Children {
			if v := verifyContent(c, p); v != "" {
				return v
			}
		}
	}
	return ""
}

// decide turns "age a (seconds before the case's reference instant ref) against
// limit" into an expectation that holds whatever instant between t0 (before
// the population was created) and t1 (after housekeeping returned) the code
// used as "now".
func decide(ageSeconds int64, ref, t0, t1 time.Time, limit time.Duration) Expect {
	stamp := ref.Add(-time.Duration(ageSeconds) * time.Second)
	if t0.Sub(stamp) > limit {
		return MustGo
	}
	if t1.Sub(stamp) < limit {
		return MustStay
	}
	return Free
}

func child(n *Node, name string) *Node {
	for _, c := range n.Children {
		if c.Name == name {
			return c
		}
	}
	return nil
}

// Expectation derives what the property statement demands for an item.
func (it *Item) Expectation(ref, t0, t1 time.Time) Expect {
	n := it.Node
	// stayIfAllYoung: shapes the statement does not single out may only be
	// demanded to stay, and only when nothing about them is old.
	stayIfAllYoung := func(limit time.Duration) Expect {
		if decide(oldest(n), ref, t0, t1, limit) == MustStay {
			return MustStay
		}
		return Free
	}
	targetOld := strings.Contains(n.Target, "-old") || (n.Kind == "dir" && child(n, agentBinaryName) != nil && strings.Contains(child(n, agentBinaryName).Target, "-old"))
	switch it.Area {
	case "agents":
		switch it.Shape {
		case "install":
			// Idle time is what the access time of the agent binary says.
			return decide(child(n, agentBinaryName).AAge, ref, t0, t1, agentIdleLimit)
		case "install-binary-symlink", "version-symlink":
			if targetOld {
				return Free
			}
			return stayIfAllYoung(agentIdleLimit)
		default:
			return stayIfAllYoung(agentIdleLimit)
		}
	case "caches":
		switch it.Shape {
		case "cache-file":
			return decide(n.MAge, ref, t0, t1, cacheAgeLimit)
		case "symlink":
			// What counts is when the content was last modified, not the age
			// of the link that leads to it.
			if targetOld {
				return Free
			}
			return MustStay
		case "dangling":
			if n.LinkAge != 0 {
				return Free
			}
			return MustStay
		default:
			return stayIfAllYoung(cacheAgeLimit)
		}
	case "staging":
		switch it.Shape {
		case "root":
			return decide(n.MAge, ref, t0, t1, stagingLimit)
		case "root-nested-younger":
			if e := decide(n.MAge, ref, t0, t1, stagingLimit); e == MustStay {
				return MustStay
			}
			return Free
		case "symlink":
			if targetOld {
				return Free
			}
			return MustStay
		case "dangling":
			if n.LinkAge != 0 {
				return Free
			}
			return MustStay
		default:
			return stayIfAllYoung(stagingLimit)
		}
	}
	// Everything else in the data directory is none of housekeeping's business.
	return MustStay
}

// oldest returns the largest age among n and its descendants (both
// timestamps); symbolic links themselves are brand new.
func oldest(n *Node) int64 {
	o := max(n.MAge, n.AAge)
	if n.Kind == "symlink" {
		o = n.LinkAge
	}
	for _, c := range n.Children {
		o = max(o, oldest(c))
	}
	return o
}
