package c44_logging

import (
	"encoding/json"
	"fmt"
	"io"
	"runtime"
	"strings"
	"sync"
	"sync/atomic"
	"testing"

	"pgregory.net/rapid"

	"github.com/mutagen-io/mutagen/pkg/logging"

	"verif/kit/ev"
)

const prop = "C44"

const rule = "non-trivial: at least one record is expected in the log and the script carries a line break, carriage return or escape character inside a message, or relays a line that imitates a logger line"

// ClassDisabledLevelRelay is the known-finding class: a line imitating a logger
// line with the "disabled" level letter ('_') relayed through Logger.Writer of
// a logger whose own level is disabled.
const ClassDisabledLevelRelay = "relay-disabled-level-line-to-disabled-logger"

var canonicalKnown = Case{RootLevel: lvDisabled, Ops: []Op{
	{Kind: "writer", Target: 0, Level: lvError},
	{Kind: "write", Target: 0, Data: []byte("2024-01-02 03:04:05.678901 [_] forged\n")},
}}

func knownClassOf(f *features) string {
	if f.disabledLoggerRelayDisabledLevel {
		return ClassDisabledLevelRelay
	}
	return ""
}

// listedKnown returns the classes the generators exclude. The only class is
// not a finding: a relayed line that carries the "disabled" level letter and
// arrives at a logger whose own level is disabled is forwarded by the real
// logger. The statement of C44 says nothing about level gating (the line that
// comes out is still exactly one neutralized line), so the main session
// classified the original alarm as the oracle demanding more than the property
// states; the class is excluded unconditionally and counted.
func listedKnown() map[string]ev.Finding {
	return map[string]ev.Finding{ClassDisabledLevelRelay: {Property: prop, ID: "out-of-domain", Status: "out-of-domain", Class: ClassDisabledLevelRelay}}
}

// sink collects what the logger writes and notices overlapping Write calls.
type sink struct {
	mu       sync.Mutex
	data     []byte
	inFlight atomic.Int32
	overlap  atomic.Bool
	slow     bool
}

func (s *sink) Write(p []byte) (int, error) {
	if s.inFlight.Add(1) > 1 {
		s.overlap.Store(true)
	}
	if s.slow {
		runtime.Gosched()
	}
	s.mu.Lock()
	s.data = append(s.data, p...)
	s.mu.Unlock()
	s.inFlight.Add(-1)
	return len(p), nil
}

func levelOf(l int) logging.Level {
	return [...]logging.Level{logging.LevelDisabled, logging.LevelError, logging.LevelWarn, logging.LevelInfo, logging.LevelDebug, logging.LevelTrace}[l]
}

func callLog(l *logging.Logger, level int, args []any) {
	switch level {
	case lvError:
		l.Error(args...)
	case lvWarn:
		l.Warn(args...)
	case lvInfo:
		l.Info(args...)
	case lvDebug:
		l.Debug(args...)
	case lvTrace:
		l.Trace(args...)
	}
}

func callLogf(l *logging.Logger, level int, format string, args []any) {
	switch level {
	case lvError:
		l.Errorf(format, args...)
	case lvWarn:
		l.Warnf(format, args...)
	case lvInfo:
		l.Infof(format, args...)
	case lvDebug:
		l.Debugf(format, args...)
	case lvTrace:
		l.Tracef(format, args...)
	}
}

// execute runs the script against the real logger and returns the sink bytes.
func execute(c *Case) (out []byte, failure string) {
	defer func() {
		if p := recover(); p != nil {
			failure = fmt.Sprintf("panic while logging: %v", p)
		}
	}()
	s := &sink{}
	loggers := []*logging.Logger{logging.NewLogger(levelOf(c.RootLevel), s)}
	var writers []io.Writer
	for i, op := range c.Ops {
		args := make([]any, len(op.Args))
		for k, a := range op.Args {
			args[k] = string(a)
		}
		switch op.Kind {
		case "log":
			callLog(loggers[op.Target], op.Level, args)
		case "logf":
			callLogf(loggers[op.Target], op.Level, string(op.Format), args)
		case "sub":
			loggers = append(loggers, loggers[op.Target].Sublogger(string(op.Name)))
		case "writer":
			writers = append(writers, loggers[op.Target].Writer(levelOf(op.Level)))
		case "write":
			n, err := writers[op.Target].Write(op.Data)
			if err != nil || n != len(op.Data) {
				return s.data, fmt.Sprintf("op %d: relay Write of %d bytes returned (%d, %v)", i, len(op.Data), n, err)
			}
		}
	}
	if s.overlap.Load() {
		return s.data, "overlapping writes reached the sink"
	}
	return s.data, ""
}

// Verdict is what judge reports.
type Verdict struct {
	Violation  string
	NonTrivial bool
	Known      string
	OutOfScope string // the script is outside the property's domain (not executed)
	F          features
}

func judge(c *Case) Verdict {
	var v Verdict
	records, f, err := predict(c)
	v.F = f
	if err != nil {
		v.OutOfScope = err.Error()
		return v
	}
	v.Known = knownClassOf(&f)
	out, failure := execute(c)
	if failure != "" {
		v.Violation = failure
		return v
	}
	v.Violation = matchSink(out, records)
	v.NonTrivial = f.records > 0 && (f.embeddedLF || f.embeddedCR || f.escape || f.forgedRelayed || f.forgedInMessage)
	return v
}

func (v *Verdict) classes() []string {
	var out []string
	add := func(b bool, name string) {
		if b {
			out = append(out, name)
		}
	}
	f := v.F
	add(f.embeddedLF, "message-with-line-break")
	add(f.embeddedCR, "message-with-carriage-return")
	add(f.escape, "escape-character")
	add(f.otherControl, "other-control-bytes")
	add(f.forgedRelayed, "relayed-logger-line")
	add(f.forgedInMessage, "logger-line-inside-message")
	add(f.disabledLevelRelayed, "relayed-level-underscore")
	add(f.gateDropped, "record-below-level-gate")
	add(f.invalidSublogger, "invalid-sublogger-name")
	add(f.nilLogger, "nil-logger-used")
	add(f.crlf, "relayed-crlf")
	add(f.unterminatedTail, "relayed-unterminated-tail")
	add(f.splitMidLine, "relayed-line-split-across-writes")
	add(f.records == 0, "no-record-expected")
	add(f.records >= 4, "four-or-more-records")
	return out
}

func fingerprint(c *Case) uint64 {
	b, _ := json.Marshal(c)
	return ev.Hash(string(b))
}

// ---------------------------------------------------------------- generator

var forgedStamp = "2024-01-02 03:04:05.678901"

var fragments = func() []string {
	out := []string{
		"\n", "\n", "\r", "\r", "\r\n", "\x1b[31m", "\x1b]0;title\x07", "\x1b[2J\x1b[H", "\x1b", "\x00", "\x07", "\x08\x08", "\x7f", "\x9b31m", "\u009b", " ", "\x0b", "\x0c", "\t",
		"\xff\xfe", "é", "日本語", " ", "", "plain text", "error: something failed", "unable to connect: EOF", "%", "%s", "%d", "%!", "...", "[sync] ", "^[", "\\r", "\\n",
		strings.Repeat("x", 300),
	}
	for _, l := range "_EWIDTX?e" {
		out = append(out, fmt.Sprintf("%s [%c] ", forgedStamp, l))
	}
	out = append(out,
		forgedStamp+" [E]", forgedStamp+"[E] ", "2024-1-02 03:04:05.678901 [E] ", "2024-01-02 03:04:05.678 [E] ", "２０２４-01-02 03:04:05.678901 [E] ",
		forgedStamp+" [E] [forged.scope] ", "9999-99-99 99:99:99.999999 [T] ", forgedStamp+" [EW] ")
	return out
}()

var formats = []string{"%s", "%v", "%q", "%d", "%x", "%s %s", "value: %s", "%%", "", "%", "%s%", "100%% %s\n", "%[2]s %[1]s", "%5s|", "a\nb", "a\rb", "%s\r\n", "%!s"}
var scopeNames = []string{"sync", "fwrd", "sync_AbC123", "a", "A", "0", "_", "x_y", "", "a.b", "a b", "a-b", "é", "a\n", "\x1b[1m", "sync]", "[x", strings.Repeat("s", 40)}

func genText(rt *rapid.T, label string, maxParts int) []byte {
	n := rapid.IntRange(0, maxParts).Draw(rt, label+".n")
	var b []byte
	for i := 0; i < n; i++ {
		b = append(b, rapid.SampledFrom(fragments).Draw(rt, label)...)
	}
	return b
}

func genCase(rt *rapid.T) *Case {
	c := &Case{}
	// Bias towards enabled loggers; every level occurs.
	c.RootLevel = rapid.SampledFrom([]int{0, 1, 2, 3, 3, 4, 5, 5, 5}).Draw(rt, "rootLevel")
	nLoggers, nWriters := 1, 0
	n := rapid.IntRange(1, 12).Draw(rt, "ops")
	for i := 0; i < n; i++ {
		kinds := []string{"log", "log", "logf", "sub", "writer", "relay", "relay", "relay"}
		switch rapid.SampledFrom(kinds).Draw(rt, "kind") {
		case "log":
			op := Op{Kind: "log", Target: rapid.IntRange(0, nLoggers-1).Draw(rt, "logger"), Level: rapid.IntRange(1, 5).Draw(rt, "level")}
			for k, na := 0, rapid.IntRange(0, 3).Draw(rt, "nargs"); k < na; k++ {
				op.Args = append(op.Args, genText(rt, "arg", 4))
			}
			c.Ops = append(c.Ops, op)
		case "logf":
			op := Op{Kind: "logf", Target: rapid.IntRange(0, nLoggers-1).Draw(rt, "logger"), Level: rapid.IntRange(1, 5).Draw(rt, "level")}
			if rapid.IntRange(0, 3).Draw(rt, "nastyFormat") == 0 {
				op.Format = genText(rt, "format", 3)
			} else {
				op.Format = []byte(rapid.SampledFrom(formats).Draw(rt, "format"))
			}
			for k, na := 0, rapid.IntRange(0, 2).Draw(rt, "nargs"); k < na; k++ {
				op.Args = append(op.Args, genText(rt, "arg", 4))
			}
			c.Ops = append(c.Ops, op)
		case "sub":
			c.Ops = append(c.Ops, Op{Kind: "sub", Target: rapid.IntRange(0, nLoggers-1).Draw(rt, "logger"), Name: []byte(rapid.SampledFrom(scopeNames).Draw(rt, "name"))})
			nLoggers++
		case "writer":
			c.Ops = append(c.Ops, Op{Kind: "writer", Target: rapid.IntRange(0, nLoggers-1).Draw(rt, "logger"), Level: rapid.IntRange(1, 5).Draw(rt, "level")})
			nWriters++
		case "relay":
			// A stream of lines cut into random writes, for a (possibly new) writer.
			if nWriters == 0 || rapid.IntRange(0, 3).Draw(rt, "newWriter") == 0 {
				c.Ops = append(c.Ops, Op{Kind: "writer", Target: rapid.IntRange(0, nLoggers-1).Draw(rt, "logger"), Level: rapid.SampledFrom([]int{1, 1, 1, 2, 3, 4, 5}).Draw(rt, "level")})
				nWriters++
			}
			w := rapid.IntRange(0, nWriters-1).Draw(rt, "writer")
			var stream []byte
			for k, nl := 0, rapid.IntRange(1, 4).Draw(rt, "lines"); k < nl; k++ {
				line := genText(rt, "line", 5)
				if rapid.IntRange(0, 2).Draw(rt, "loggerLine") == 0 {
					letter := rapid.SampledFrom([]byte("EWIDT_EWIDT_X")).Draw(rt, "letter")
					line = append([]byte(fmt.Sprintf("%s [%c] ", forgedStamp, letter)), line...)
				}
				// The stream's own line structure: embedded LF fragments simply
				// make more lines.
				stream = append(stream, line...)
				stream = append(stream, rapid.SampledFrom([]string{"\n", "\n", "\n", "\r\n", "\r\r\n", ""}).Draw(rt, "eol")...)
			}
			for len(stream) > 0 {
				cut := len(stream)
				if rapid.Bool().Draw(rt, "fragment") {
					cut = rapid.IntRange(1, len(stream)).Draw(rt, "cut")
				}
				chunk := stream[:cut]
				stream = stream[cut:]
				c.Ops = append(c.Ops, Op{Kind: "write", Target: w, Data: append([]byte(nil), chunk...)})
			}
		}
	}
	return c
}

// ------------------------------------------------------------------- tests

func runCase(rec *ev.Recorder, known map[string]ev.Finding, c *Case, fail func(v Verdict)) {
	if _, f, err := predict(c); err == nil {
		if cls := knownClassOf(&f); cls != "" {
			if _, listed := known[cls]; listed {
				rec.Excluded(cls)
				return
			}
		}
	}
	v := judge(c)
	if v.OutOfScope != "" {
		rec.Class("out-of-scope")
		return
	}
	rec.Eval()
	if v.Violation != "" {
		fail(v)
		return
	}
	for _, cl := range v.classes() {
		rec.Class(cl)
	}
	if v.NonTrivial {
		rec.Class("nontrivial")
		rec.NonTrivial(fingerprint(c))
		if rec.WantSample() && len(c.Ops) <= 6 {
			rec.Sample(render(c))
		}
	}
}

// render gives a readable form of a script for samples.
func render(c *Case) map[string]any {
	var ops []string
	for _, op := range c.Ops {
		switch op.Kind {
		case "log":
			ops = append(ops, fmt.Sprintf("logger%d.%c(%q)", op.Target, levelLetters[op.Level], op.Args))
		case "logf":
			ops = append(ops, fmt.Sprintf("logger%d.%cf(%q, %q)", op.Target, levelLetters[op.Level], op.Format, op.Args))
		case "sub":
			ops = append(ops, fmt.Sprintf("logger%d.Sublogger(%q)", op.Target, op.Name))
		case "writer":
			ops = append(ops, fmt.Sprintf("logger%d.Writer(%c)", op.Target, levelLetters[op.Level]))
		case "write":
			ops = append(ops, fmt.Sprintf("writer%d.Write(%q)", op.Target, op.Data))
		}
	}
	return map[string]any{"root_level": string(levelLetters[c.RootLevel]), "ops": ops}
}

func TestRandomScripts(t *testing.T) {
	if ev.ReplayPath() != "" {
		t.Skip("replaying")
	}
	rec := ev.New(t, prop, "scripts-random", "rapid: scripts of 1-12 operations over a logger of random level: level methods and f-variants with messages assembled from line breaks, CR, CRLF, ESC sequences, other control bytes, invalid UTF-8, imitated logger prefixes with every level letter and near misses; nested subloggers with valid/invalid names; line streams relayed through Logger.Writer in random fragments (LF / CRLF / CR CRLF endings, unterminated tails); "+rule)
	known := listedKnown()
	ev.Check(t, rec, 40000, 600000, func(rt *rapid.T) {
		c := genCase(rt)
		runCase(rec, known, c, func(v Verdict) { ev.Failf(rt, rec, c, "%s", v.Violation) })
	})
}

// TestSingleMessages enumerates every pair of fragments as one message through
// every method and as one relayed line, at every logger level.
func TestSingleMessages(t *testing.T) {
	if ev.ReplayPath() != "" {
		t.Skip("replaying")
	}
	rec := ev.New(t, prop, "fragment-pairs-exhaustive", "every ordered pair of message fragments (line breaks, CR, ESC sequences, control bytes, imitated prefixes, ...) as one message through Error..Trace, Errorf..Tracef(\"%s\") and as one relayed line, for every logger level, with and without a scope; "+rule)
	rec.SetExhaustive(fmt.Sprintf("%d fragments squared x 6 logger levels x {no scope, scope} x {5 plain methods, 5 formatted methods, relay at Error}", len(fragments)))
	known := listedKnown()
	var failed *Case
	var failedMsg string
	for i := 0; i < len(fragments) && failed == nil; i++ {
		for j := 0; j < len(fragments) && failed == nil; j++ {
			text := []byte(fragments[i] + fragments[j])
			for root := lvDisabled; root <= lvTrace && failed == nil; root++ {
				for scoped := 0; scoped < 2 && failed == nil; scoped++ {
					c := &Case{RootLevel: root}
					target := 0
					if scoped == 1 {
						c.Ops = append(c.Ops, Op{Kind: "sub", Target: 0, Name: []byte("outer")}, Op{Kind: "sub", Target: 1, Name: []byte("inner_1")})
						target = 2
					}
					for level := lvError; level <= lvTrace; level++ {
						c.Ops = append(c.Ops, Op{Kind: "log", Target: target, Level: level, Args: [][]byte{text}})
						c.Ops = append(c.Ops, Op{Kind: "logf", Target: target, Level: level, Format: []byte("%s"), Args: [][]byte{text}})
					}
					c.Ops = append(c.Ops, Op{Kind: "writer", Target: target, Level: lvError})
					c.Ops = append(c.Ops, Op{Kind: "write", Target: 0, Data: append(append([]byte(nil), text...), '\n')})
					runCase(rec, known, c, func(v Verdict) { failed, failedMsg = c, v.Violation })
				}
			}
		}
	}
	if failed != nil {
		ev.FailTB(t, rec, failed, "%s", failedMsg)
	}
}

// TestConcurrentLoggers checks the serialisation promise with a data oracle:
// lines from concurrent goroutines (plain, formatted and relayed) reach the
// sink one Write at a time and the sink holds exactly one intact line per
// record.
func TestConcurrentLoggers(t *testing.T) {
	if ev.ReplayPath() != "" {
		t.Skip("replaying")
	}
	rec := ev.New(t, prop, "concurrent-loggers", "G goroutines share one root logger through subloggers and relay writers (one writer per goroutine) and log M tagged messages each; the sink must never see overlapping writes and must hold exactly G*M intact lines; non-trivial: every run (messages carry CR/ESC)")
	rounds := ev.Pick(20, 200)
	const G, M = 8, 200
	for round := 0; round < rounds; round++ {
		s := &sink{slow: true}
		root := logging.NewLogger(logging.LevelInfo, s)
		var wg sync.WaitGroup
		for g := 0; g < G; g++ {
			wg.Add(1)
			go func(g int) {
				defer wg.Done()
				l := root.Sublogger(fmt.Sprintf("g%d", g))
				w := l.Writer(logging.LevelError)
				for m := 0; m < M; m++ {
					switch m % 3 {
					case 0:
						l.Info(fmt.Sprintf("tag-%d-%d", g, m), "x\x1b[0m\rtail")
					case 1:
						l.Warnf("tag-%d-%d %s", g, m, "y\nforged")
					case 2:
						fmt.Fprintf(w, "tag-%d-%d relayed\r\n", g, m)
					}
				}
			}(g)
		}
		wg.Wait()
		rec.EvalN(G * M)
		c := map[string]any{"round": round, "goroutines": G, "messages": M}
		if s.overlap.Load() {
			ev.FailTB(t, rec, c, "two writes reached the log sink at the same time (access to the underlying writer is not serialised)")
		}
		lines := strings.Split(strings.TrimSuffix(string(s.data), "\n"), "\n")
		if len(lines) != G*M || !strings.HasSuffix(string(s.data), "\n") {
			ev.FailTB(t, rec, c, "%d lines in the log for %d records", len(lines), G*M)
		}
		seen := map[string]bool{}
		for _, line := range lines {
			if strings.ContainsAny(line, "\r\x1b") || len(line) < prefixLength || !timestampShaped(line[:26]) {
				ev.FailTB(t, rec, c, "malformed line under concurrency: %q", clip(line))
			}
			var g, m int
			i := strings.Index(line, "tag-")
			if i < 0 {
				ev.FailTB(t, rec, c, "line without its tag: %q", clip(line))
			}
			if _, err := fmt.Sscanf(line[i:], "tag-%d-%d", &g, &m); err != nil || !strings.Contains(line, fmt.Sprintf("[g%d] ", g)) || seen[line[i:]] {
				ev.FailTB(t, rec, c, "line with wrong scope or duplicate: %q", clip(line))
			}
			seen[line[i:]] = true
		}
		rec.NonTrivial(ev.Hash("round", fmt.Sprint(round, ev.Seed())))
	}
}

func TestKnownFindings(t *testing.T) {
	if ev.ReplayPath() != "" {
		t.Skip("replaying")
	}
	known := listedKnown()
	if len(known) == 0 {
		t.Skip("no known findings listed for C44")
	}
	rec := ev.New(t, prop, "known-findings", "canonical instance of each listed known-finding class")
	for class, f := range known {
		if f.Status != "known" {
			continue
		}
		c := canonicalKnown
		v := judge(&c)
		rec.Eval()
		if v.Known != class {
			t.Fatalf("canonical instance classifies as %q", v.Known)
		}
		if v.Violation != "" {
			rec.ReportKnown(f)
			rec.Class("still-failing/" + class)
		} else {
			rec.Note("no-longer-reproduces/"+class, "the canonical instance now satisfies the property; the entry can be marked fixed")
		}
	}
}

func TestReplay(t *testing.T) {
	if ev.ReplayPath() == "" {
		t.Skip("no replay requested")
	}
	var c Case
	if _, err := ev.LoadReplay(ev.ReplayPath(), &c); err != nil {
		t.Fatalf("cannot load replay: %v", err)
	}
	rec := ev.New(t, prop, "replay", "replay of a saved case")
	v := judge(&c)
	rec.Eval()
	if v.OutOfScope != "" {
		t.Fatalf("replayed case is outside the property's domain: %s", v.OutOfScope)
	}
	if v.Violation != "" {
		ev.FailTB(t, rec, &c, "%s", v.Violation)
	}
}

// FuzzC44Log is the native fuzz target of the thorough tier: one direct
// message (method and logger level chosen by sel) followed by a byte stream
// relayed in chunks; the full oracle runs inside.
func FuzzC44Log(f *testing.F) {
	f.Add("plain message", []byte("agent: unable to start\n"), uint8(0x35), uint8(7))
	f.Add("two\nlines", []byte("a\r\nb\n"), uint8(0x15), uint8(1))
	f.Add("esc \x1b[31m red", []byte(forgedStamp+" [E] remote error\n"), uint8(0x33), uint8(64))
	f.Add("cr\rhidden", []byte(forgedStamp+" [T] [scope] trace \x1b[0m\r\n"+forgedStamp+" [W] w\n"), uint8(0xf5), uint8(3))
	f.Add("%s %d", []byte("no newline at end"), uint8(0x8b), uint8(5))
	known := listedKnown()
	f.Fuzz(func(t *testing.T, msg string, stream []byte, sel uint8, chunk uint8) {
		if len(stream) > 40000 || len(msg) > 40000 {
			return
		}
		c := &Case{RootLevel: int(sel&7) % 6}
		target := 0
		if sel&0x08 != 0 {
			c.Ops = append(c.Ops, Op{Kind: "sub", Target: 0, Name: []byte("scope_1")})
			target = 1
		}
		level := 1 + int(sel>>4&7)%5
		if sel&0x80 != 0 {
			// Format strings are programmer-supplied: curated list, fuzzed operand.
			c.Ops = append(c.Ops, Op{Kind: "logf", Target: target, Level: level, Format: []byte(formats[len(msg)%len(formats)]), Args: [][]byte{[]byte(msg)}})
		} else {
			c.Ops = append(c.Ops, Op{Kind: "log", Target: target, Level: level, Args: [][]byte{[]byte(msg)}})
		}
		c.Ops = append(c.Ops, Op{Kind: "writer", Target: target, Level: 1 + int(chunk>>5)%5})
		step := int(chunk&31) + 1
		for len(stream) > 0 {
			n := min(step, len(stream))
			c.Ops = append(c.Ops, Op{Kind: "write", Target: 0, Data: stream[:n]})
			stream = stream[n:]
		}
		if _, ft, err := predict(c); err != nil {
			return
		} else if cls := knownClassOf(&ft); cls != "" {
			if _, listed := known[cls]; listed {
				return
			}
		}
		if v := judge(c); v.Violation != "" {
			t.Fatalf("C44 violated: %s\nscript: %v", v.Violation, render(c))
		}
	})
}
