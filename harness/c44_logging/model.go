// Package c44_logging checks C44: every record written through a Logger (level
// methods, formatted variants, subloggers, and byte streams relayed through
// Logger.Writer) produces exactly one well-formed line in the sink, and no
// message content can forge further lines or terminal control sequences.
//
// This file is the independent side: an interpreter of the same operation
// script that predicts which records must appear (level, scope, timestamp if
// relayed, preserved content) and a matcher of those records against the bytes
// the sink received. It shares no code with pkg/logging.
package c44_logging

import (
	"bytes"
	"fmt"
	"strings"
)

// Levels as documented in pkg/logging/level.go.
const (
	lvDisabled = iota
	lvError
	lvWarn
	lvInfo
	lvDebug
	lvTrace
)

const levelLetters = "_EWIDT"

// Op is one scripted operation.
type Op struct {
	// Kind: "log" (Error/Warn/...), "logf" (Errorf/...), "sub" (Sublogger),
	// "writer" (Logger.Writer), "write" (Write on a relay writer).
	Kind   string   `json:"kind"`
	Target int      `json:"target"`           // logger index (log, logf, sub, writer) or writer index (write)
	Level  int      `json:"level,omitempty"`  // log, logf, writer
	Format []byte   `json:"format,omitempty"` // logf
	Args   [][]byte `json:"args,omitempty"`   // log, logf (string operands)
	Name   []byte   `json:"name,omitempty"`   // sub
	Data   []byte   `json:"data,omitempty"`   // write
}

// Case is a script; it is what replay files hold. Logger 0 is the root logger
// created with RootLevel; "sub" and "writer" ops create further loggers and
// writers numbered in order of creation.
type Case struct {
	RootLevel int  `json:"root_level"`
	Ops       []Op `json:"ops"`
}

// expect is one acceptable rendering of a record.
type expect struct {
	level   byte   // level letter
	scope   string // dotted scope ("" for none)
	ts      string // exact timestamp text for relayed logger lines, "" for "any well-formed"
	content string // text the body has to start with (already neutralised)
}

// record is one expected sink line.
type record struct {
	optional bool
	alts     []expect
	origin   string
}

type mLogger struct {
	isNil bool
	level int
	scope string
}

type mWriter struct {
	logger int
	level  int
	buf    []byte
	isNil  bool
}

// features are facts about a script used for class counters, the non-trivial
// rule and the known-finding classifier.
type features struct {
	embeddedLF, embeddedCR, escape, otherControl bool
	forgedRelayed, forgedInMessage               bool
	disabledLevelRelayed                         bool // a relayed logger line carrying the '_' level
	disabledLoggerRelayDisabledLevel             bool // ... arriving at a logger whose own level is disabled
	gateDropped, invalidSublogger, nilLogger     bool
	crlf, unterminatedTail, splitMidLine         bool
	records                                      int
}

func validScopeName(name []byte) bool {
	if len(name) == 0 {
		return false
	}
	for _, c := range name {
		if !(c >= 'a' && c <= 'z' || c >= 'A' && c <= 'Z' || c >= '0' && c <= '9' || c == '_') {
			return false
		}
	}
	return true
}

func digitsAt(s string, from, to int) bool {
	for i := from; i < to; i++ {
		if s[i] < '0' || s[i] > '9' {
			return false
		}
	}
	return true
}

// timestampShaped: "YYYY-MM-DD hh:mm:ss.uuuuuu" (26 bytes).
func timestampShaped(s string) bool {
	return len(s) == 26 && digitsAt(s, 0, 4) && s[4] == '-' && digitsAt(s, 5, 7) && s[7] == '-' && digitsAt(s, 8, 10) &&
		s[10] == ' ' && digitsAt(s, 11, 13) && s[13] == ':' && digitsAt(s, 14, 16) && s[16] == ':' && digitsAt(s, 17, 19) &&
		s[19] == '.' && digitsAt(s, 20, 26)
}

const prefixLength = 26 + len(" [X] ")

// loggerLinePrefix recognises "timestamp [L] " at the start of a relayed line,
// L being one of the documented level letters.
func loggerLinePrefix(line string) (ts string, level int, ok bool) {
	if len(line) < prefixLength || !timestampShaped(line[:26]) {
		return "", 0, false
	}
	if line[26] != ' ' || line[27] != '[' || line[29] != ']' || line[30] != ' ' {
		return "", 0, false
	}
	lv := strings.IndexByte(levelLetters, line[28])
	if lv < 0 {
		return "", 0, false
	}
	return line[:26], lv, true
}

func neutraliseEscape(s string) string { return strings.ReplaceAll(s, "\x1b", "^[") }

// firstLineOf returns the part of a message in front of its first CR or LF.
func firstLineOf(msg string) string {
	if i := strings.IndexAny(msg, "\r\n"); i >= 0 {
		return msg[:i]
	}
	return msg
}

func (f *features) scan(text string) {
	if strings.Contains(text, "\x1b") {
		f.escape = true
	}
	for i := 0; i < len(text); i++ {
		if c := text[i]; c < 0x20 && c != '\n' && c != '\r' && c != 0x1b && c != '\t' || c == 0x7f {
			f.otherControl = true
		}
	}
}

// message predicts the record of a direct message (already formatted, with
// its trailing newline) at the given level on logger l.
func message(l mLogger, level int, msg string, origin string, f *features, out *[]record) {
	body := strings.TrimSuffix(msg, "\n")
	if strings.Contains(body, "\n") {
		f.embeddedLF = true
	}
	if strings.Contains(body, "\r") {
		f.embeddedCR = true
	}
	f.scan(body)
	for _, line := range strings.FieldsFunc(body, func(r rune) bool { return r == '\n' || r == '\r' }) {
		if _, _, ok := loggerLinePrefix(line); ok {
			f.forgedInMessage = true
		}
	}
	if l.isNil {
		f.nilLogger = true
		return
	}
	if l.level < level {
		f.gateDropped = true
		return
	}
	*out = append(*out, record{origin: origin, alts: []expect{{
		level: levelLetters[level], scope: l.scope, content: neutraliseEscape(firstLineOf(msg)),
	}}})
}

// predict interprets the script.
func predict(c *Case) (records []record, f features, err error) {
	if c.RootLevel < lvDisabled || c.RootLevel > lvTrace {
		return nil, f, fmt.Errorf("bad root level %d", c.RootLevel)
	}
	loggers := []mLogger{{level: c.RootLevel}}
	var writers []*mWriter
	for i, op := range c.Ops {
		origin := fmt.Sprintf("op %d (%s)", i, op.Kind)
		switch op.Kind {
		case "log", "logf":
			if op.Target < 0 || op.Target >= len(loggers) || op.Level < lvError || op.Level > lvTrace {
				return nil, f, fmt.Errorf("%s: bad target or level", origin)
			}
			msg := formatMessage(&op)
			if !strings.Contains(msg, "\n") {
				// A format string that swallows the appended newline (fmt gives up
				// on an oversized width, e.g. "%10000010") trips the logger's
				// documented "something has gone wrong with formatting" assertion.
				// Format strings are programmer-supplied constants, so this is
				// outside the property's domain.
				return nil, f, fmt.Errorf("%s: the format string swallows the trailing newline", origin)
			}
			message(loggers[op.Target], op.Level, msg, origin, &f, &records)
		case "sub":
			if op.Target < 0 || op.Target >= len(loggers) {
				return nil, f, fmt.Errorf("%s: bad target", origin)
			}
			parent := loggers[op.Target]
			switch {
			case parent.isNil:
				loggers = append(loggers, mLogger{isNil: true})
			case !validScopeName(op.Name):
				f.invalidSublogger = true
				// Documented: a warning is issued on the current logger.
				if parent.level >= lvWarn {
					records = append(records, record{origin: origin, alts: []expect{{level: 'W', scope: parent.scope}}})
				}
				loggers = append(loggers, mLogger{isNil: true})
			default:
				scope := string(op.Name)
				if parent.scope != "" {
					scope = parent.scope + "." + scope
				}
				loggers = append(loggers, mLogger{level: parent.level, scope: scope})
			}
		case "writer":
			if op.Target < 0 || op.Target >= len(loggers) || op.Level < lvError || op.Level > lvTrace {
				return nil, f, fmt.Errorf("%s: bad target or level", origin)
			}
			writers = append(writers, &mWriter{logger: op.Target, level: op.Level, isNil: loggers[op.Target].isNil})
		case "write":
			if op.Target < 0 || op.Target >= len(writers) {
				return nil, f, fmt.Errorf("%s: bad target", origin)
			}
			w := writers[op.Target]
			if w.isNil {
				f.nilLogger = true
				continue
			}
			if len(w.buf) > 0 && len(op.Data) > 0 {
				f.splitMidLine = true
			}
			if len(w.buf)+len(op.Data) > maxLine {
				// The relay writer documents a 64 KiB buffer and refuses writes
				// beyond it; such scripts are outside the property's domain.
				return nil, f, fmt.Errorf("%s: write beyond the documented buffer limit", origin)
			}
			w.buf = append(w.buf, op.Data...)
			for {
				nl := bytes.IndexByte(w.buf, '\n')
				if nl < 0 {
					break
				}
				line := string(w.buf[:nl])
				w.buf = w.buf[nl+1:]
				if strings.HasSuffix(line, "\r") {
					line = line[:len(line)-1]
					f.crlf = true
				}
				relayed(loggers[w.logger], w.level, line, origin, &f, &records)
			}
		default:
			return nil, f, fmt.Errorf("%s: unknown kind", origin)
		}
	}
	for _, w := range writers {
		if len(w.buf) > 0 {
			f.unterminatedTail = true
		}
	}
	f.records = len(records)
	return records, f, nil
}

// maxLine is the documented bound on a relayed line (64 KiB buffer).
const maxLine = 64 * 1024

// relayed predicts the record of one complete relayed line.
func relayed(l mLogger, writerLevel int, line string, origin string, f *features, out *[]record) {
	ts, level, ok := loggerLinePrefix(line)
	if !ok {
		message(l, writerLevel, line+"\n", origin+" relayed text", f, out)
		return
	}
	f.forgedRelayed = true
	f.scan(line)
	if strings.Contains(line, "\r") {
		f.embeddedCR = true
	}
	rest := line[prefixLength:]
	asIs := expect{level: levelLetters[level], scope: l.scope, ts: ts, content: neutraliseEscape(firstLineOf(rest))}
	if level == lvDisabled {
		// A line claiming the "disabled" level is not something a logger emits.
		// A disabled logger must stay silent; for an enabled logger the
		// documentation leaves open whether such a line is forwarded, reported
		// as invalid, or treated as plain text, so all three (and dropping it)
		// are accepted.
		f.disabledLevelRelayed = true
		if l.level == lvDisabled {
			f.disabledLoggerRelayDisabledLevel = true
			return
		}
		alts := []expect{asIs}
		if l.level >= lvWarn {
			alts = append(alts, expect{level: 'W', scope: l.scope})
		}
		if l.level >= writerLevel {
			alts = append(alts, expect{level: levelLetters[writerLevel], scope: l.scope, content: neutraliseEscape(firstLineOf(line))})
		}
		*out = append(*out, record{optional: true, alts: alts, origin: origin + " relayed logger line with level _"})
		return
	}
	if l.level < level {
		f.gateDropped = true
		return
	}
	*out = append(*out, record{alts: []expect{asIs}, origin: origin + " relayed logger line"})
}

// formatMessage renders the operands the way the documentation defines the
// message text: fmt.Sprintln for the plain methods, fmt.Sprintf with an
// appended newline for the formatted ones (fmt is standard library).
func formatMessage(op *Op) string {
	args := make([]any, len(op.Args))
	for i, a := range op.Args {
		args[i] = string(a)
	}
	if op.Kind == "logf" {
		return fmt.Sprintf(string(op.Format)+"\n", args...)
	}
	return fmt.Sprintln(args...)
}

// fits tells whether a sink line is an acceptable rendering of e.
func fits(line string, e expect) bool {
	if len(line) < prefixLength || !timestampShaped(line[:26]) {
		return false
	}
	if e.ts != "" && line[:26] != e.ts {
		return false
	}
	if line[26:28] != " [" || line[28] != e.level || line[29:31] != "] " {
		return false
	}
	body := line[prefixLength:]
	if e.scope != "" {
		tag := "[" + e.scope + "] "
		if !strings.HasPrefix(body, tag) {
			return false
		}
		body = body[len(tag):]
	}
	return strings.HasPrefix(body, e.content)
}

// matchSink decides whether the sink bytes are one acceptable line per
// expected record, in order. It returns "" or a description of the mismatch.
func matchSink(sink []byte, records []record) string {
	if i := bytes.IndexByte(sink, '\r'); i >= 0 {
		return fmt.Sprintf("the log contains a raw carriage return at byte %d: %q", i, excerpt(sink, i))
	}
	if i := bytes.IndexByte(sink, 0x1b); i >= 0 {
		return fmt.Sprintf("the log contains a raw escape character at byte %d: %q", i, excerpt(sink, i))
	}
	var lines []string
	if len(sink) > 0 {
		if sink[len(sink)-1] != '\n' {
			return fmt.Sprintf("the log does not end with a newline: %q", excerpt(sink, len(sink)-1))
		}
		lines = strings.Split(string(sink[:len(sink)-1]), "\n")
	}
	// Backtracking match (optional records make greedy matching unsound).
	memo := map[[2]int]bool{}
	var match func(i, j int) bool
	match = func(i, j int) bool {
		if i == len(records) {
			return j == len(lines)
		}
		key := [2]int{i, j}
		if v, ok := memo[key]; ok {
			return v
		}
		res := false
		if records[i].optional && match(i+1, j) {
			res = true
		} else if j < len(lines) {
			for _, e := range records[i].alts {
				if fits(lines[j], e) {
					res = match(i+1, j+1)
					break
				}
			}
		}
		memo[key] = res
		return res
	}
	if match(0, 0) {
		return ""
	}
	// Diagnose: walk greedily to the first disagreement.
	i, j := 0, 0
	for i < len(records) && j < len(lines) {
		ok := false
		for _, e := range records[i].alts {
			if fits(lines[j], e) {
				ok = true
				break
			}
		}
		if ok {
			i, j = i+1, j+1
		} else if records[i].optional {
			i++
		} else {
			break
		}
	}
	for i < len(records) && records[i].optional && j == len(lines) {
		i++
	}
	required := 0
	for _, r := range records {
		if !r.optional {
			required++
		}
	}
	switch {
	case i == len(records) && j < len(lines):
		return fmt.Sprintf("the log has %d lines for %d records (%d required); first surplus line %d: %q", len(lines), len(records), required, j, clip(lines[j]))
	case j == len(lines):
		return fmt.Sprintf("the log has %d lines for %d records (%d required); missing the line of %s, wanted %s", len(lines), len(records), required, records[i].origin, describe(records[i]))
	default:
		return fmt.Sprintf("log line %d is %q but the next record (%s) wants %s", j, clip(lines[j]), records[i].origin, describe(records[i]))
	}
}

func describe(r record) string {
	var parts []string
	for _, e := range r.alts {
		ts := "<timestamp>"
		if e.ts != "" {
			ts = e.ts
		}
		s := fmt.Sprintf("%s [%c] ", ts, e.level)
		if e.scope != "" {
			s += "[" + e.scope + "] "
		}
		parts = append(parts, fmt.Sprintf("%q...", clip(s+e.content)))
	}
	return strings.Join(parts, " or ")
}

func clip(s string) string {
	if len(s) > 160 {
		return s[:160] + "…"
	}
	return s
}

func excerpt(b []byte, at int) string {
	from, to := max(0, at-40), min(len(b), at+20)
	return string(b[from:to])
}
