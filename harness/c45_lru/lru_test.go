package c45_lru

import (
	"fmt"
	"runtime"
	"sync"
	"testing"

	"pgregory.net/rapid"

	"verif/kit/ev"
)

const prop = "C45"

const ntRule = "non-trivial: a capacity eviction occurs whose victim is not the oldest-inserted entry, i.e. a Get or an updating Add changed who is least recently used"

func init() { stringKey(4096) }

const exhaustiveKeys = 4

// alphabet: Add, Get, Remove on each of the keys 1..4. Len is not an
// operation of its own: it is compared after every operation.
func alphabet() []Op {
	var a []Op
	for key := 1; key <= exhaustiveKeys; key++ {
		a = append(a, Op{KAdd, key}, Op{KGet, key}, Op{KRemove, key})
	}
	return a
}

type tally struct {
	evals, nts uint64
	bits       [infoBits]uint64
	sample     *Case
	failure    *Case
	failMsg    string
}

// enumerate judges every sequence of exactly `length` operations for one
// capacity / callback setting. Results are compared after every step, so all
// shorter sequences are covered as prefixes (their epilogue is not run, but a
// prefix followed by lookups of every key is itself among the sequences).
func enumerate(capacity int, noCB bool, length int, out *tally) {
	a := alphabet()
	type item struct{ i, j int }
	work := make(chan item, 64)
	var mu sync.Mutex
	stop := false
	var wg sync.WaitGroup
	for w := 0; w < runtime.GOMAXPROCS(0); w++ {
		wg.Add(1)
		go func() {
			defer wg.Done()
			r := &runner[int]{name: intKey}
			var local tally
			seq := make([]Op, length)
			cs := Case{Cap: capacity, NoCallback: noCB, KeySpace: exhaustiveKeys, Ops: seq}
			var walk func(pos int)
			walk = func(pos int) {
				if local.failure != nil {
					return
				}
				if pos < length {
					for _, o := range a {
						seq[pos] = o
						walk(pos + 1)
					}
					return
				}
				v, info := r.judge(&cs)
				local.evals++
				if info&IEvictReorder != 0 {
					local.nts++
					if local.sample == nil && info&(IRemoveHit|IUpdate) == IRemoveHit|IUpdate {
						local.sample = &Case{Cap: capacity, NoCallback: noCB, KeySpace: exhaustiveKeys, Ops: append([]Op{}, seq...)}
					}
				}
				for b := 0; b < infoBits; b++ {
					if info&(1<<b) != 0 {
						local.bits[b]++
					}
				}
				if v != "" {
					fc := &Case{Cap: capacity, NoCallback: noCB, KeySpace: exhaustiveKeys, Ops: append([]Op{}, seq...)}
					if r.step > 0 && r.step < length {
						// The violation is in step r.step: the prefix suffices.
						short := *fc
						short.Ops = fc.Ops[:r.step]
						if v2, _ := Judge(&short); v2 != "" {
							fc, v = &short, v2
						}
					}
					local.failure, local.failMsg = fc, v
				}
			}
			for it := range work {
				mu.Lock()
				halted := stop
				mu.Unlock()
				if halted {
					continue
				}
				seq[0], seq[1] = a[it.i], a[it.j]
				walk(2)
				if local.failure != nil {
					mu.Lock()
					stop = true
					mu.Unlock()
				}
			}
			mu.Lock()
			out.evals += local.evals
			out.nts += local.nts
			for b := range local.bits {
				out.bits[b] += local.bits[b]
			}
			if out.sample == nil {
				out.sample = local.sample
			}
			if local.failure != nil && (out.failure == nil || len(local.failure.Ops) < len(out.failure.Ops)) {
				out.failure, out.failMsg = local.failure, local.failMsg
			}
			mu.Unlock()
		}()
	}
	shard, shards := ev.Shard(), ev.Shards()
	k := 0
	for i := range a {
		for j := range a {
			k++
			if k%shards != shard {
				continue
			}
			work <- item{i, j}
		}
	}
	close(work)
	wg.Wait()
}

func TestExhaustive(t *testing.T) {
	if ev.ReplayPath() != "" {
		t.Skip("replaying")
	}
	length := ev.Pick(6, 7)
	rec := ev.New(t, prop, "exhaustive-sequences", "every sequence of Add/Get/Remove over keys 1..4 for capacities 0..3, with an eviction callback and with none; "+ntRule)
	rec.SetExhaustive(fmt.Sprintf("capacities 0 (unlimited), 1, 2, 3; keys 1..4; every sequence of %d operations from {Add(k, fresh value), Get(k), Remove(k)} (12 operations; shorter sequences are prefixes; result, Len and callback log compared after every operation); with an eviction callback at that length and with a nil callback at length %d; each followed by the epilogue (capacity-many fresh Adds, lookup and removal of every key)", length, length-1))
	for _, noCB := range []bool{false, true} {
		for capacity := 0; capacity <= 3; capacity++ {
			var tl tally
			l := length
			if noCB {
				l--
			}
			enumerate(capacity, noCB, l, &tl)
			rec.EvalN(tl.evals)
			rec.NonTrivialDistinct(tl.nts)
			cls := fmt.Sprintf("cap/%d", capacity)
			if noCB {
				cls += "/nil-callback"
			}
			rec.ClassN(cls, tl.evals)
			for b, n := range tl.bits {
				if n > 0 {
					rec.ClassN(infoNames[b], n)
				}
			}
			if tl.sample != nil {
				rec.Sample(map[string]any{"case": tl.sample.Render()})
			}
			if tl.failure != nil {
				ev.FailTB(t, rec, tl.failure, "%s | %s", tl.failure.Render(), tl.failMsg)
			}
		}
	}
}

// TestRandom: long random sequences, capacity up to 50, key space sized
// around the capacity so that hits, misses, updates and evictions all occur.
func TestRandom(t *testing.T) {
	if ev.ReplayPath() != "" {
		t.Skip("replaying")
	}
	rec := ev.New(t, prop, "random-sequences", "rapid: capacity 0..50, key space mostly larger than the capacity (up to three times), sometimes smaller, up to 500 operations biased towards re-using recently touched keys, int and string keys, with and without callback; "+ntRule)
	ev.Check(t, rec, 10000, 150000, func(rt *rapid.T) {
		c := &Case{}
		c.Cap = rapid.IntRange(0, 50).Draw(rt, "cap")
		if rapid.IntRange(0, 3).Draw(rt, "cap.small") == 0 {
			c.Cap = rapid.IntRange(0, 4).Draw(rt, "cap.tiny")
		}
		base := max(c.Cap, 2)
		// Mostly more keys than fit (evictions need that), sometimes fewer.
		if rapid.IntRange(0, 4).Draw(rt, "keys.few") == 0 {
			c.KeySpace = rapid.IntRange(1, base).Draw(rt, "keys.below")
		} else {
			c.KeySpace = base + rapid.IntRange(1, 2*base).Draw(rt, "keys.above")
		}
		c.NoCallback = rapid.IntRange(0, 5).Draw(rt, "nocb") == 0
		c.StringKeys = rapid.Bool().Draw(rt, "stringkeys")
		n := rapid.IntRange(1, 500).Draw(rt, "steps")
		if rapid.IntRange(0, 4).Draw(rt, "steps.long") > 0 {
			// Long enough to fill the cache several times over.
			n = min(500, max(n, 10*base+rapid.IntRange(0, 100).Draw(rt, "steps.more")))
		}
		// One drawn word per operation, decoded below (a draw per field makes
		// generation dominate the run time). 0 decodes to Get(1), so shrinking
		// still simplifies.
		words := rapid.SliceOfN(rapid.Uint32(), n, n).Draw(rt, "ops")
		c.Ops = make([]Op, n)
		for i, w := range words {
			// rapid favours small words; spread them (0 stays 0).
			x := int((uint64(w) * 0x9E3779B97F4A7C15) >> 34)
			kind := KAdd
			switch x % 10 {
			case 0, 1, 2, 3:
				kind = KGet
			case 4:
				kind = KRemove
			}
			x /= 10
			reuse := i > 0 && x%3 == 1
			x /= 3
			var key int
			if reuse {
				// Touch a key used a few steps ago again.
				key = c.Ops[i-1-x%min(i, 2*base)].Key
			} else {
				key = 1 + x%c.KeySpace
			}
			c.Ops[i] = Op{kind, key}
		}
		v, info := Judge(c)
		rec.Eval()
		if v != "" {
			ev.Failf(rt, rec, c, "%s | %s", short(c), v)
		}
		switch {
		case c.Cap == 0:
			rec.Class("cap/unlimited")
		case c.Cap <= 4:
			rec.Class("cap/1..4")
		default:
			rec.Class("cap/5..50")
		}
		if c.NoCallback {
			rec.Class("nil-callback")
		}
		if c.StringKeys {
			rec.Class("string-keys")
		}
		for b := 0; b < infoBits; b++ {
			if info&(1<<b) != 0 {
				rec.Class(infoNames[b])
			}
		}
		if info&IEvictReorder != 0 {
			rec.NonTrivial(ev.Hash(c.Render()))
			if rec.WantSample() && len(c.Ops) <= 14 {
				rec.Sample(map[string]any{"case": c.Render()})
			}
		}
	})
}

func short(c *Case) string {
	s := c.Render()
	if len(s) > 700 {
		return s[:350] + " ... " + s[len(s)-300:]
	}
	return s
}

func TestReplay(t *testing.T) {
	if ev.ReplayPath() == "" {
		t.Skip("no replay requested")
	}
	var c Case
	if _, err := ev.LoadReplay(ev.ReplayPath(), &c); err != nil {
		t.Fatalf("cannot load replay: %v", err)
	}
	rec := ev.New(t, prop, "replay", "replay of a saved case")
	v, _ := Judge(&c)
	rec.Eval()
	if v != "" {
		ev.FailTB(t, rec, &c, "%s | %s", short(&c), v)
	}
}
