// Package c45_lru checks C45: pkg/container/lru.Cache against an ordered-list
// model of a least-recently-used cache.
//
// The model is a slice of entries ordered from most to least recently used.
// It shares nothing with the implementation (no container/list, no index
// map). After every operation the check compares the operation's result, Len
// and the exact sequence of eviction-callback invocations made during that
// operation. After the generated sequence an epilogue (itself made of
// modelled operations) exposes the recency order that is still hidden in the
// cache: capacity-many fresh keys are added, which must push the remaining
// entries out in least-recently-used order, and every key is looked up.
package c45_lru

import (
	"fmt"

	"github.com/mutagen-io/mutagen/pkg/container/lru"
)

// Kind is an operation kind.
type Kind uint8

const (
	KAdd Kind = iota
	KGet
	KRemove
)

var kindNames = []string{"Add", "Get", "Remove"}

func (k Kind) MarshalText() ([]byte, error) { return []byte(kindNames[k]), nil }
func (k *Kind) UnmarshalText(b []byte) error {
	for i, n := range kindNames {
		if n == string(b) {
			*k = Kind(i)
			return nil
		}
	}
	return fmt.Errorf("unknown op kind %q", b)
}

// Op is one operation on key Key. The value stored by the Add that is the
// i-th operation of a case (counting from 1, epilogue included) is i: unique,
// never the zero value, and a function of the case alone.
type Op struct {
	K   Kind `json:"op"`
	Key int  `json:"key"`
}

func (o Op) String() string { return fmt.Sprintf("%s(%d)", kindNames[o.K], o.Key) }

// Case is what replay files hold.
type Case struct {
	// Cap is the cache's maximum number of entries; 0 means unlimited.
	Cap int `json:"capacity"`
	// NoCallback constructs the cache with a nil eviction callback.
	NoCallback bool `json:"no_callback,omitempty"`
	// StringKeys instantiates Cache[string, int] (key i is "key-i") instead
	// of Cache[int, int].
	StringKeys bool `json:"string_keys,omitempty"`
	// KeySpace is the number of distinct keys 1..KeySpace the operations draw
	// from (the epilogue looks all of them up).
	KeySpace int  `json:"key_space"`
	Ops      []Op `json:"ops"`
}

func (c *Case) Render() string {
	s := fmt.Sprintf("cap=%d keys=1..%d", c.Cap, c.KeySpace)
	if c.NoCallback {
		s += " nil-callback"
	}
	if c.StringKeys {
		s += " string-keys"
	}
	s += ":"
	for _, o := range c.Ops {
		s += " " + o.String()
	}
	return s
}

// Info bits: what a run exercised.
const (
	IEvict        uint32 = 1 << iota // an entry was evicted by capacity
	IEvictReorder                    // ... and it was not the oldest-inserted entry (recency, not insertion order, decided)
	IUpdate                          // Add of a present key
	IHit                             // Get of a present key
	IMiss                            // Get of an absent key
	IRemoveHit                       // Remove of a present key
	IRemoveMiss                      // Remove of an absent key
	IReAdd                           // Add of a key that had been evicted or removed before
	infoBits      = 8
)

var infoNames = []string{"capacity-eviction", "eviction-decided-by-recency", "update", "get-hit", "get-miss", "remove-hit", "remove-miss", "re-add"}

type ent struct {
	key, val int
	born     int // step at which the key was inserted (not updated)
}

type kv[K comparable] struct {
	key K
	val int
}

// runner executes a case against a real cache with key type K and the model.
type runner[K comparable] struct {
	name func(int) K

	c     *lru.Cache[K, int]
	limit int
	// order is the model: entries from most to least recently used.
	order []ent
	// gone remembers keys that left the cache (classification only).
	gone map[int]bool
	// log collects the callback invocations of the current operation.
	log  []kv[K]
	want []ent // expected callback invocations of the current operation
	step int
	info uint32
	noCB bool
}

func (r *runner[K]) begin(c *Case) {
	r.limit, r.noCB = c.Cap, c.NoCallback
	r.order = r.order[:0]
	r.step, r.info = 0, 0
	if r.gone == nil {
		r.gone = make(map[int]bool)
	} else {
		clear(r.gone)
	}
	if c.NoCallback {
		r.c = lru.New[K, int](c.Cap, nil)
	} else {
		r.c = lru.New[K, int](c.Cap, func(k K, v int) { r.log = append(r.log, kv[K]{k, v}) })
	}
}

func (r *runner[K]) find(key int) int {
	for i := range r.order {
		if r.order[i].key == key {
			return i
		}
	}
	return -1
}

// toFront moves entry i of the model to the most-recently-used position.
func (r *runner[K]) toFront(i int) {
	e := r.order[i]
	copy(r.order[1:i+1], r.order[:i])
	r.order[0] = e
}

func (r *runner[K]) drop(i int) ent {
	e := r.order[i]
	r.order = append(r.order[:i], r.order[i+1:]...)
	r.gone[e.key] = true
	return e
}

// do executes one operation on both sides; "" means they agree.
func (r *runner[K]) do(o Op) string {
	r.step++
	r.log = r.log[:0]
	r.want = r.want[:0]
	k := r.name(o.Key)
	i := r.find(o.Key)
	switch o.K {
	case KAdd:
		val := r.step
		if i >= 0 {
			r.info |= IUpdate
			r.order[i].val = val
			r.toFront(i)
		} else {
			if r.gone[o.Key] {
				r.info |= IReAdd
			}
			r.order = append(r.order, ent{})
			copy(r.order[1:], r.order)
			r.order[0] = ent{key: o.Key, val: val, born: r.step}
			if r.limit > 0 && len(r.order) > r.limit {
				last := len(r.order) - 1
				oldest := true
				for _, e := range r.order[:last] {
					if e.born < r.order[last].born {
						oldest = false
					}
				}
				r.info |= IEvict
				if !oldest {
					r.info |= IEvictReorder
				}
				r.want = append(r.want, r.drop(last))
			}
		}
		r.c.Add(k, val)
	case KGet:
		var wantV int
		wantOK := i >= 0
		if wantOK {
			r.info |= IHit
			wantV = r.order[i].val
			r.toFront(i)
		} else {
			r.info |= IMiss
		}
		v, ok := r.c.Get(k)
		if ok != wantOK || v != wantV {
			return fmt.Sprintf("%s returned (%d, %v), an LRU cache of capacity %d holding %s returns (%d, %v)", o, v, ok, r.limit, r.contents(), wantV, wantOK)
		}
	case KRemove:
		if i >= 0 {
			r.info |= IRemoveHit
			r.want = append(r.want, r.drop(i))
		} else {
			r.info |= IRemoveMiss
		}
		r.c.Remove(k)
	default:
		return "harness: unknown op"
	}
	if n := r.c.Len(); n != len(r.order) {
		return fmt.Sprintf("after %s Len() = %d, an LRU cache of capacity %d holds %d entries: %s", o, n, r.limit, len(r.order), r.contents())
	}
	if r.noCB {
		return ""
	}
	if len(r.log) != len(r.want) {
		return fmt.Sprintf("%s invoked the eviction callback %d time(s) %v, expected %d time(s) %s", o, len(r.log), r.log, len(r.want), r.wanted())
	}
	for j, w := range r.want {
		if r.log[j].key != r.name(w.key) || r.log[j].val != w.val {
			return fmt.Sprintf("%s invoked the eviction callback with %v, expected %s (least recently used first)", o, r.log, r.wanted())
		}
	}
	return ""
}

func (r *runner[K]) contents() string {
	s := "[MRU"
	for _, e := range r.order {
		s += fmt.Sprintf(" %d=%d", e.key, e.val)
	}
	return s + " LRU]"
}

func (r *runner[K]) wanted() string {
	s := "["
	for _, e := range r.want {
		s += fmt.Sprintf(" (key %d, value %d)", e.key, e.val)
	}
	return s + " ]"
}

func (r *runner[K]) stepSafe(o Op) (viol string) {
	defer func() {
		if p := recover(); p != nil {
			viol = fmt.Sprintf("panic in step %d %s: %v", r.step, o, p)
		}
	}()
	if v := r.do(o); v != "" {
		return fmt.Sprintf("step %d: %s", r.step, v)
	}
	return ""
}

// epilogue exposes the hidden recency order. With a capacity, that many fresh
// keys (KeySpace+1...) are added: each Add that overflows must evict exactly
// the least recently used survivor. Then every key is looked up, and removed.
func (r *runner[K]) epilogue(c *Case) string {
	for j := 1; j <= c.Cap; j++ {
		if v := r.stepSafe(Op{KAdd, c.KeySpace + j}); v != "" {
			return "epilogue " + v
		}
	}
	for key := 1; key <= c.KeySpace+max(c.Cap, 0); key++ {
		if v := r.stepSafe(Op{KGet, key}); v != "" {
			return "epilogue " + v
		}
	}
	for key := 1; key <= c.KeySpace+max(c.Cap, 0); key++ {
		if v := r.stepSafe(Op{KRemove, key}); v != "" {
			return "epilogue " + v
		}
	}
	return ""
}

// judge runs a whole case; the verdict is a pure function of the case.
func (r *runner[K]) judge(c *Case) (violation string, info uint32) {
	r.begin(c)
	for _, o := range c.Ops {
		if v := r.stepSafe(o); v != "" {
			return v, r.info
		}
	}
	info = r.info // the epilogue does not count towards the classification
	return r.epilogue(c), info
}

func intKey(i int) int { return i }

var stringKeys []string

func stringKey(i int) string {
	for len(stringKeys) <= i {
		stringKeys = append(stringKeys, fmt.Sprintf("key-%d", len(stringKeys)))
	}
	return stringKeys[i]
}

// Judge dispatches on the key type of the case.
func Judge(c *Case) (string, uint32) {
	if c.StringKeys {
		r := &runner[string]{name: stringKey}
		return r.judge(c)
	}
	r := &runner[int]{name: intKey}
	return r.judge(c)
}
