package c46_bundle

import (
	"bytes"
	"encoding/json"
	"fmt"
	"io"
	"os"
	"os/exec"
	"path/filepath"
	"strings"
	"testing"

	"pgregory.net/rapid"

	"verif/kit/ev"
)

const prop = "C46"

// knownBothClass is the classifier name of the finding "both search locations
// hold a bundle: the later one (libexec) is used instead of the first".
const knownBothClass = "bundle-in-both-search-locations"

func TestMain(m *testing.M) {
	if spec := os.Getenv(specEnv); spec != "" {
		os.Exit(childMain(spec))
	}
	os.Exit(m.Run())
}

var (
	osNames   = []string{"linux", "linux", "darwin", "windows", "windows", "freebsd", "fakeos", "", "LINUX", "linux_amd64"}
	archNames = []string{"amd64", "amd64", "arm64", "386", "fakearch", "", "amd64_v2"}
)

func drawBundle(rt *rapid.T, label string, weights []string) Bundle {
	b := Bundle{Kind: rapid.SampledFrom(weights).Draw(rt, label+".kind")}
	if b.Kind != "tar" && b.Kind != "truncated" {
		return b
	}
	n := rapid.SampledFrom([]int{0, 1, 1, 2, 2, 3, 3, 4}).Draw(rt, label+".entries")
	for i := 0; i < n; i++ {
		l := fmt.Sprintf("%s.%d", label, i)
		e := Entry{Seed: rapid.Uint64().Draw(rt, l+".seed")}
		switch rapid.IntRange(0, 9).Draw(rt, l+".nameclass") {
		case 0:
			e.Name = rapid.SampledFrom([]string{"README", "linux_amd64.sig", "linux", "_", "./linux_amd64", "linux-amd64"}).Draw(rt, l+".other")
		case 1:
			if i > 0 {
				e.Name = b.Entries[i-1].Name // duplicate
				break
			}
			fallthrough
		default:
			e.Name = rapid.SampledFrom(osNames).Draw(rt, l+".os") + "_" + rapid.SampledFrom(archNames).Draw(rt, l+".arch")
		}
		switch rapid.IntRange(0, 5).Draw(rt, l+".sizeclass") {
		case 0:
			e.Size = 0
		case 1:
			e.Size = rapid.SampledFrom([]int{511, 512, 513, 1024}).Draw(rt, l+".size")
		case 2:
			e.Size = rapid.IntRange(1, 70000).Draw(rt, l+".size")
		default:
			e.Size = rapid.IntRange(1, 3000).Draw(rt, l+".size")
		}
		if rapid.IntRange(0, 24).Draw(rt, l+".dir") == 0 {
			e.Dir, e.Size = true, 0
		}
		b.Entries = append(b.Entries, e)
	}
	if b.Kind == "truncated" {
		stream, _ := tarStream(b.Entries)
		b.CutAt = rapid.IntRange(0, len(stream)).Draw(rt, label+".cut")
	}
	return b
}

func drawLayout(rt *rapid.T) *Layout {
	l := &Layout{}
	l.ExeDir = rapid.SampledFrom([]string{"prefix/bin", "prefix/bin", "prefix/bin", "bin", "prefix/sbin", "prefix"}).Draw(rt, "exedir")
	l.Launch = rapid.SampledFrom([]string{"direct", "direct", "direct", "symlink"}).Draw(rt, "launch")
	kinds := []string{"absent", "absent", "absent", "absent", "tar", "tar", "tar", "tar", "tar", "tar", "tar", "tar", "truncated", "garbage", "dir"}
	l.Beside = drawBundle(rt, "beside", kinds)
	l.Libexec = drawBundle(rt, "libexec", kinds)
	// Collect names that exist somewhere, so that queries often hit.
	var have []string
	for _, b := range []Bundle{l.Beside, l.Libexec} {
		for _, e := range b.Entries {
			if i := strings.Index(e.Name, "_"); i >= 0 {
				have = append(have, e.Name)
			}
		}
	}
	n := rapid.IntRange(1, 5).Draw(rt, "queries")
	for i := 0; i < n; i++ {
		lab := fmt.Sprintf("q%d", i)
		q := Query{Output: rapid.SampledFrom([]string{"", "", "new", "existing"}).Draw(rt, lab+".output")}
		if len(have) > 0 && rapid.IntRange(0, 4).Draw(rt, lab+".known") != 0 {
			name := rapid.SampledFrom(have).Draw(rt, lab+".name")
			i := strings.Index(name, "_")
			q.Goos, q.Goarch = name[:i], name[i+1:]
		} else {
			q.Goos = rapid.SampledFrom(osNames).Draw(rt, lab+".os")
			q.Goarch = rapid.SampledFrom(archNames).Draw(rt, lab+".arch")
		}
		l.Queries = append(l.Queries, q)
	}
	if l.Beside.present() && n >= 2 && rapid.IntRange(0, 2).Draw(rt, "late") == 0 {
		l.LateFrom = rapid.IntRange(1, n-1).Draw(rt, "late.from")
	}
	return l
}

func linkOrCopy(src, dst string) error {
	if err := os.Link(src, dst); err == nil {
		return nil
	}
	in, err := os.Open(src)
	if err != nil {
		return err
	}
	defer in.Close()
	out, err := os.OpenFile(dst, os.O_WRONLY|os.O_CREATE|os.O_TRUNC, 0o755)
	if err != nil {
		return err
	}
	if _, err := io.Copy(out, in); err != nil {
		out.Close()
		return err
	}
	return out.Close()
}

// Outcome of judging a layout.
type Outcome struct {
	Violation string
	Harness   string
	Classes   []string
	// OrderDecides: both search locations hold a well-formed bundle and they
	// differ in what they deliver for some query.
	OrderDecides bool
	NonTrivial   bool
}

// judge builds the layout under root, runs the child there and applies the
// oracle to every query.
func judge(l *Layout, root string) (o Outcome) {
	self, err := os.Executable()
	if err != nil {
		o.Harness = err.Error()
		return
	}
	exeDir := filepath.Join(root, l.ExeDir)
	tmp := filepath.Join(root, "tmp")
	outDir := filepath.Join(root, "out")
	for _, d := range []string{exeDir, tmp, outDir} {
		if err := os.MkdirAll(d, 0o755); err != nil {
			o.Harness = err.Error()
			return
		}
	}
	exe := filepath.Join(exeDir, "mutagen-x")
	if err := linkOrCopy(self, exe); err != nil {
		o.Harness = err.Error()
		return
	}
	libexec := filepath.Join(filepath.Dir(exeDir), "libexec")
	besideDir := exeDir
	if l.LateFrom > 0 && l.Beside.present() {
		besideDir = filepath.Join(root, "late")
	}
	if err := materialiseBundle(l.Beside, besideDir); err != nil {
		o.Harness = err.Error()
		return
	}
	if err := materialiseBundle(l.Libexec, libexec); err != nil {
		o.Harness = err.Error()
		return
	}
	launch := exe
	decoy := Bundle{Kind: "tar", Entries: []Entry{{Name: "linux_amd64", Seed: 424242, Size: 77}, {Name: "windows_amd64", Seed: 434343, Size: 78}}}
	if l.Launch == "symlink" {
		// A link in another prefix, with decoy bundles where a lookup that
		// went by the link's location would find them.
		altBin := filepath.Join(root, "alt", "bin")
		os.MkdirAll(altBin, 0o755)
		materialiseBundle(decoy, altBin)
		materialiseBundle(decoy, filepath.Join(root, "alt", "libexec"))
		launch = filepath.Join(altBin, "mutagen-x")
		if err := os.Symlink(exe, launch); err != nil {
			o.Harness = err.Error()
			return
		}
	}
	spec := ChildSpec{Result: filepath.Join(root, "result.json")}
	for i, q := range l.Queries {
		cq := ChildQuery{Goos: q.Goos, Goarch: q.Goarch}
		if l.LateFrom > 0 && i == l.LateFrom && l.Beside.present() {
			cq.InstallFrom, cq.InstallTo = filepath.Join(besideDir, bundleName), filepath.Join(exeDir, bundleName)
		}
		switch q.Output {
		case "new":
			cq.Output = filepath.Join(outDir, fmt.Sprintf("agent-%d", i))
		case "existing":
			cq.Output = filepath.Join(outDir, fmt.Sprintf("agent-%d", i))
			if err := os.WriteFile(cq.Output, bytes.Repeat([]byte("previous content "), 6000), 0o644); err != nil {
				o.Harness = err.Error()
				return
			}
		}
		spec.Queries = append(spec.Queries, cq)
	}
	raw, _ := json.Marshal(spec)
	specPath := filepath.Join(root, "spec.json")
	if err := os.WriteFile(specPath, raw, 0o600); err != nil {
		o.Harness = err.Error()
		return
	}
	cmd := exec.Command(launch)
	cmd.Dir = root
	cmd.Env = append(os.Environ(), specEnv+"="+specPath, "TMPDIR="+tmp)
	var stderr bytes.Buffer
	cmd.Stderr = &stderr
	if err := cmd.Run(); err != nil {
		o.Harness = fmt.Sprintf("child failed: %v: %s", err, stderr.String())
		return
	}
	var res ChildResult
	if raw, err = os.ReadFile(spec.Result); err == nil {
		err = json.Unmarshal(raw, &res)
	}
	if err != nil || len(res.Answers) != len(l.Queries) {
		o.Harness = fmt.Sprintf("child result unusable: %v", err)
		return
	}
	// The model of the search locations assumes what os.Executable reports on
	// Linux: the resolved path of the running binary.
	if resolved, err := filepath.EvalSymlinks(launch); err != nil || resolved != res.Executable {
		o.Harness = fmt.Sprintf("child reports executable %q, launched %q (resolved %q, %v)", res.Executable, launch, resolved, err)
		return
	}

	o.Classes = append(o.Classes, "exedir/"+l.ExeDir, "launch/"+l.Launch,
		"beside/"+l.Beside.Kind, "libexec/"+l.Libexec.Kind)
	if l.BothLocations() {
		o.Classes = append(o.Classes, "both-locations")
	}
	for i, q := range l.Queries {
		a := res.Answers[i]
		l := l
		if l.LateFrom > 0 && i < l.LateFrom {
			early := *l
			early.Beside = Bundle{Kind: "absent"}
			l = &early
		} else if l.LateFrom > 0 && l.Beside.present() {
			o.Classes = append(o.Classes, "query-after-the-bundle-beside-the-executable-appeared")
		}
		want := l.Expect(q)
		o.Classes = append(o.Classes, "want/"+want.Kind, "output/"+q.Output)
		if l.libexecSearched() && (l.Beside.present() || l.Libexec.present()) && want.Kind == "bytes" {
			o.NonTrivial = true
		}
		if l.BothLocations() && l.Beside.Kind == "tar" && l.Libexec.Kind == "tar" {
			other := *l
			other.Beside = Bundle{Kind: "absent"}
			w2 := other.Expect(q)
			if w2.Kind != want.Kind || (want.Kind == "bytes" && !bytes.Equal(want.Payloads[0], w2.Payloads[0])) {
				o.OrderDecides = true
			}
		}
		describe := func() string {
			return fmt.Sprintf("query %d (%q, %q, output %q)", i, q.Goos, q.Goarch, q.Output)
		}
		if a.Err != "" && a.Path != "" {
			o.Violation = fmt.Sprintf("%s: returned both a path %q and an error %q", describe(), a.Path, a.Err)
			return
		}
		switch want.Kind {
		case "free":
			continue
		case "error":
			if a.Err == "" {
				got, _ := os.ReadFile(a.Path)
				o.Violation = fmt.Sprintf("%s: expected an error (%s) but the call succeeded with %d bytes (%s)", describe(), want.Why, len(got), l.whose(got, q))
				return
			}
		case "bytes":
			if a.Err != "" {
				o.Violation = fmt.Sprintf("%s: expected %s, got error %q", describe(), want.Why, a.Err)
				return
			}
			got, err := os.ReadFile(a.Path)
			if err != nil {
				o.Violation = fmt.Sprintf("%s: returned path %q unreadable: %v", describe(), a.Path, err)
				return
			}
			match := false
			for _, p := range want.Payloads {
				if bytes.Equal(got, p) {
					match = true
				}
			}
			if !match {
				o.Violation = fmt.Sprintf("%s: extracted %d bytes that are not %s (%d bytes expected); they are %s", describe(), len(got), want.Why, len(want.Payloads[0]), l.whose(got, q))
				return
			}
			info, err := os.Lstat(a.Path)
			if err != nil || !info.Mode().IsRegular() {
				o.Violation = fmt.Sprintf("%s: returned path is not a regular file", describe())
				return
			}
			if q.Goos != "windows" && info.Mode().Perm() != 0o700 {
				o.Violation = fmt.Sprintf("%s: extracted agent has mode %04o, want 0700", describe(), info.Mode().Perm())
				return
			}
			if q.Output == "" {
				// Documented: a temporary location accessible to only the
				// user, with an extension fit for the target platform.
				if info.Mode().Perm()&0o077 != 0 {
					o.Violation = fmt.Sprintf("%s: temporary agent file has mode %04o", describe(), info.Mode().Perm())
					return
				}
				if filepath.Dir(a.Path) != tmp {
					o.Violation = fmt.Sprintf("%s: temporary agent file %q is not in the temporary directory", describe(), a.Path)
					return
				}
				if (q.Goos == "windows") != strings.HasSuffix(a.Path, ".exe") {
					o.Violation = fmt.Sprintf("%s: temporary agent file %q has the wrong extension for the target", describe(), a.Path)
					return
				}
			} else if a.Path != spec.Queries[i].Output {
				o.Violation = fmt.Sprintf("%s: returned %q instead of the requested output path", describe(), a.Path)
				return
			}
		}
	}
	return
}

// whose explains where extracted bytes came from (diagnostics only).
func (l *Layout) whose(got []byte, q Query) string {
	name := q.Goos + "_" + q.Goarch
	for _, loc := range []struct {
		n string
		b Bundle
	}{{"the bundle beside the executable", l.Beside}, {"the libexec bundle", l.Libexec}} {
		for _, e := range loc.b.Entries {
			if e.Name == name && !e.Dir && bytes.Equal(got, gen(e.Seed, e.Size)) {
				return "member " + name + " of " + loc.n
			}
		}
	}
	if bytes.Equal(got, gen(424242, 77)) || bytes.Equal(got, gen(434343, 78)) {
		return "a member of the decoy bundle next to the launching symbolic link"
	}
	return "from no bundle member"
}

// canonicalBoth is the minimal layout of the known class.
func canonicalBoth() *Layout {
	return &Layout{
		ExeDir: "prefix/bin", Launch: "direct",
		Beside:  Bundle{Kind: "tar", Entries: []Entry{{Name: "linux_amd64", Seed: 1, Size: 10}}},
		Libexec: Bundle{Kind: "tar", Entries: []Entry{{Name: "linux_amd64", Seed: 2, Size: 10}}},
		Queries: []Query{{Goos: "linux", Goarch: "amd64", Output: ""}},
	}
}

var caseCounter int

// aborted is set after harness trouble: the run is reported as inconclusive
// (driver exit 2) and the remaining cases are not executed.
var aborted bool

func abort(format string, args ...any) {
	if !aborted {
		ev.Inconclusive("C46 harness trouble: "+format, args...)
	}
	aborted = true
}

func caseRoot(base string) string {
	caseCounter++
	return filepath.Join(base, fmt.Sprintf("case-%d", caseCounter))
}

func TestLayouts(t *testing.T) {
	if ev.ReplayPath() != "" {
		t.Skip("replaying")
	}
	rec := ev.New(t, prop, "random-layouts",
		"rapid: installation layouts (executable in prefix/bin, bin, prefix/sbin or prefix; started directly or through a symbolic link from another prefix with decoy bundles) with the bundle beside the executable and in ../libexec each absent / well-formed (0..4 members, duplicates, foreign names, directory members, sizes around the 512-byte block) / truncated / not gzip / a directory; 1..4 queries for known and unknown platforms with a temporary, new or pre-existing output path; the child runs inside the layout. Non-trivial: the executable is in a bin directory (two search locations), a location holds a bundle and the query must deliver bytes")
	known, excluded := ev.KnownClass(prop, knownBothClass)
	base := t.TempDir()
	if excluded {
		// One canonical instance of the known class, to report it and to
		// notice when it stops failing.
		root := caseRoot(base)
		o := judge(canonicalBoth(), root)
		os.RemoveAll(root)
		if o.Harness != "" {
			abort("%s", o.Harness)
		} else if o.Violation != "" {
			rec.ReportKnown(known)
		} else {
			rec.Note("known-finding-no-longer-reproduces", knownBothClass)
		}
	}
	ev.Check(t, rec, 300, 1500, func(rt *rapid.T) {
		l := drawLayout(rt)
		if aborted {
			return
		}
		if excluded && l.BothLocations() {
			rec.Excluded(knownBothClass)
			// Keep the rest of the layout: drop one of the two bundles.
			if rapid.Bool().Draw(rt, "excluded.keep-libexec") {
				l.Beside = Bundle{Kind: "absent"}
			} else {
				l.Libexec = Bundle{Kind: "absent"}
			}
		}
		root := caseRoot(base)
		defer os.RemoveAll(root)
		o := judge(l, root)
		if o.Harness != "" {
			abort("%s", o.Harness)
			return
		}
		rec.Eval()
		if o.Violation != "" {
			ev.Failf(rt, rec, l, "%s", o.Violation)
		}
		for _, c := range o.Classes {
			rec.Class(c)
		}
		if o.OrderDecides {
			rec.Class("both-locations-order-decides")
		}
		if o.NonTrivial {
			raw, _ := json.Marshal(l)
			rec.NonTrivial(ev.Hash(string(raw)))
			if rec.WantSample() && len(l.Queries) == 1 {
				rec.Sample(l)
			}
		}
	})
}

func TestReplay(t *testing.T) {
	if ev.ReplayPath() == "" {
		t.Skip("no replay requested")
	}
	var l Layout
	if _, err := ev.LoadReplay(ev.ReplayPath(), &l); err != nil {
		t.Fatalf("cannot load replay: %v", err)
	}
	rec := ev.New(t, prop, "replay", "replay of a saved case")
	o := judge(&l, caseRoot(t.TempDir()))
	rec.Eval()
	if o.Harness != "" {
		abort("%s", o.Harness)
		t.Skip("harness trouble")
	}
	if o.Violation != "" {
		ev.FailTB(t, rec, &l, "%s", o.Violation)
	}
}
