// Package c46_bundle checks C46: the agent bundle lookup honours the search
// order (directory of the running executable before libexec, first location
// holding a bundle wins) and extracts exactly the archive entry of the
// requested platform.
//
// The test binary is hard-linked into a generated installation layout and
// re-executed there as a child (environment variable VERIF_C46_SPEC), because
// the lookup is relative to the running executable.
package c46_bundle

import (
	"archive/tar"
	"bytes"
	"compress/gzip"
	"encoding/json"
	"fmt"
	"os"
	"path/filepath"
	"strings"

	"github.com/mutagen-io/mutagen/pkg/agent"
)

const specEnv = "VERIF_C46_SPEC"

// bundleName is the documented name of the agent bundle.
const bundleName = "mutagen-agents.tar.gz"

// Entry is one archive member.
type Entry struct {
	Name string `json:"name"`
	Seed uint64 `json:"seed"`
	Size int    `json:"size"`
	Dir  bool   `json:"dir,omitempty"` // a directory member (no data)
}

// Bundle describes what sits at <location>/mutagen-agents.tar.gz.
type Bundle struct {
	// Kind: "absent", "tar" (well-formed), "truncated" (tar stream cut at
	// CutAt bytes, then compressed), "garbage" (not gzip), "dir" (a directory
	// of that name).
	Kind    string  `json:"kind"`
	Entries []Entry `json:"entries,omitempty"`
	CutAt   int     `json:"cut_at,omitempty"`
}

// Query is one ExecutableForPlatform call made by the child.
type Query struct {
	Goos   string `json:"goos"`
	Goarch string `json:"goarch"`
	// Output: "" (temporary file), "new" (output path that does not exist),
	// "existing" (output path holding a longer file with mode 0644).
	Output string `json:"output"`
}

// Layout is one C46 case.
type Layout struct {
	// ExeDir is the directory (relative to the case root) that holds the
	// executable: "prefix/bin", "bin", "prefix/sbin", "prefix".
	ExeDir string `json:"exe_dir"`
	// Launch: "direct", or "symlink": started through a symbolic link that
	// lives in another tree (alt/bin) with decoy bundles next to it.
	Launch string `json:"launch"`
	// Beside is the bundle in the executable's directory, Libexec the one in
	// <parent of ExeDir>/libexec (a decoy when ExeDir is not a bin directory).
	Beside  Bundle  `json:"beside"`
	Libexec Bundle  `json:"libexec"`
	Queries []Query `json:"queries"`
	// LateFrom > 0: the bundle beside the executable is not there at first; it
	// is put in place (inside the same process) right before query LateFrom.
	LateFrom int `json:"beside_appears_before_query,omitempty"`
}

// gen produces n deterministic bytes.
func gen(seed uint64, n int) []byte {
	out := make([]byte, n)
	x := seed*0x9e3779b97f4a7c15 + 0x7f4a7c15
	for i := range out {
		x = x*6364136223846793005 + 1442695040888963407
		out[i] = byte(x >> 56)
	}
	return out
}

// tarStream renders the entries as an (uncompressed) tar stream and returns,
// per entry, the offset just past its data.
func tarStream(entries []Entry) ([]byte, []int) {
	var buf bytes.Buffer
	w := tar.NewWriter(&buf)
	ends := make([]int, len(entries))
	for i, e := range entries {
		h := &tar.Header{Name: e.Name, Mode: 0o755, Size: int64(e.Size), Typeflag: tar.TypeReg}
		if e.Dir {
			h.Typeflag, h.Size = tar.TypeDir, 0
		}
		if err := w.WriteHeader(h); err != nil {
			panic(err)
		}
		if !e.Dir {
			w.Write(gen(e.Seed, e.Size))
		}
		w.Flush()
		ends[i] = buf.Len() - padding(e)
	}
	w.Close()
	return buf.Bytes(), ends
}

// padding returns the number of padding bytes that follow the entry's data in
// the stream (tar pads data to 512-byte blocks).
func padding(e Entry) int {
	if e.Dir || e.Size%512 == 0 {
		return 0
	}
	return 512 - e.Size%512
}

// materialiseBundle creates the bundle in dir.
func materialiseBundle(b Bundle, dir string) error {
	if b.Kind == "absent" || b.Kind == "" {
		return nil
	}
	if err := os.MkdirAll(dir, 0o755); err != nil {
		return err
	}
	p := filepath.Join(dir, bundleName)
	switch b.Kind {
	case "dir":
		return os.Mkdir(p, 0o755)
	case "garbage":
		return os.WriteFile(p, []byte("this is not a gzip stream, it only has the right name\n"), 0o644)
	case "tar", "truncated":
		stream, _ := tarStream(b.Entries)
		if b.Kind == "truncated" {
			stream = stream[:min(b.CutAt, len(stream))]
		}
		var z bytes.Buffer
		zw := gzip.NewWriter(&z)
		zw.Write(stream)
		zw.Close()
		return os.WriteFile(p, z.Bytes(), 0o644)
	}
	return fmt.Errorf("unknown bundle kind %q", b.Kind)
}

// Verdict for one query.
type Want struct {
	// Kind: "error" (the call must fail), "bytes" (must succeed with one of
	// Payloads), "free" (the statement does not decide).
	Kind     string
	Payloads [][]byte
	Why      string
}

// present tells whether a location "holds a bundle" (anything of that name).
func (b Bundle) present() bool { return b.Kind != "" && b.Kind != "absent" }

// libexecSearched tells whether the layout's executable lives in a bin
// directory, i.e. whether <parent>/libexec is the second search location.
func (l *Layout) libexecSearched() bool { return filepath.Base(l.ExeDir) == "bin" }

// BothLocations tells whether both search locations hold something named like
// the bundle (the class of the known finding "libexec overrides the
// executable's directory").
func (l *Layout) BothLocations() bool {
	return l.libexecSearched() && l.Beside.present() && l.Libexec.present()
}

// Expect is the oracle for the outcome of a query: an independent model of the
// statement (first location holding a bundle is used; exact entry; unknown
// platforms and missing bundles are errors).
func (l *Layout) Expect(q Query) Want {
	locations := []Bundle{l.Beside}
	if l.libexecSearched() {
		locations = append(locations, l.Libexec)
	}
	var chosen *Bundle
	for i := range locations {
		if locations[i].present() {
			chosen = &locations[i]
			break
		}
	}
	if chosen == nil {
		return Want{Kind: "error", Why: "no search location holds a bundle"}
	}
	switch chosen.Kind {
	case "dir":
		// Not a file: failing, or moving on to the next location, are both
		// defensible readings.
		return Want{Kind: "free", Why: "first bundle name is a directory"}
	case "garbage":
		return Want{Kind: "error", Why: "the bundle in the first location holding one is not a gzip stream"}
	}
	name := q.Goos + "_" + q.Goarch
	_, ends := tarStream(chosen.Entries)
	var complete [][]byte
	for i, e := range chosen.Entries {
		if e.Name != name {
			continue
		}
		if e.Dir {
			return Want{Kind: "free", Why: "platform name matches a directory member"}
		}
		if chosen.Kind == "truncated" && chosen.CutAt < ends[i] {
			// The archive ends inside (or before) this member: it cannot be
			// delivered byte for byte, and neither can any later one.
			break
		}
		// Duplicate members: the statement does not say which one counts.
		complete = append(complete, gen(e.Seed, e.Size))
	}
	if len(complete) == 0 {
		return Want{Kind: "error", Why: "no complete member named " + name + " in the bundle of the first location holding one"}
	}
	return Want{Kind: "bytes", Payloads: complete, Why: "member " + name + " of the bundle in the first location holding one"}
}

// ---------------------------------------------------------------------------
// Child role.
// ---------------------------------------------------------------------------

// ChildSpec is handed to the child.
type ChildSpec struct {
	Queries []ChildQuery `json:"queries"`
	Result  string       `json:"result"`
}

// ChildQuery is a query with its concrete output path.
type ChildQuery struct {
	Goos, Goarch, Output string
	// InstallFrom / InstallTo: rename this path before the query.
	InstallFrom, InstallTo string
}

// ChildAnswer is the outcome of one query.
type ChildAnswer struct {
	Path string `json:"path"`
	Err  string `json:"err"`
}

// ChildResult is what the child reports.
type ChildResult struct {
	Executable string        `json:"executable"`
	Answers    []ChildAnswer `json:"answers"`
}

func childMain(specPath string) int {
	raw, err := os.ReadFile(specPath)
	if err != nil {
		fmt.Fprintln(os.Stderr, "c46 child:", err)
		return 3
	}
	var spec ChildSpec
	if err := json.Unmarshal(raw, &spec); err != nil {
		fmt.Fprintln(os.Stderr, "c46 child:", err)
		return 3
	}
	var res ChildResult
	res.Executable, _ = os.Executable()
	for _, q := range spec.Queries {
		if q.InstallFrom != "" {
			if err := os.Rename(q.InstallFrom, q.InstallTo); err != nil {
				fmt.Fprintln(os.Stderr, "c46 child:", err)
				return 3
			}
		}
		p, err := agent.ExecutableForPlatform(q.Goos, q.Goarch, q.Output)
		a := ChildAnswer{Path: p}
		if err != nil {
			a.Err = err.Error()
			if strings.TrimSpace(a.Err) == "" {
				a.Err = "(empty error text)"
			}
		}
		res.Answers = append(res.Answers, a)
	}
	out, _ := json.Marshal(res)
	if err := os.WriteFile(spec.Result, out, 0o600); err != nil {
		fmt.Fprintln(os.Stderr, "c46 child:", err)
		return 3
	}
	return 0
}
