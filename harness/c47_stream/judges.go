package c47_stream

import (
	"bytes"
	"crypto/sha1"
	"crypto/sha256"
	"fmt"
	"hash"
	"hash/crc32"
	"hash/fnv"
	"io"
	"runtime"
	"sync"
	"sync/atomic"

	"github.com/mutagen-io/mutagen/pkg/stream"
)

// verdict of one case.
type verdict struct {
	viol    string
	nt      bool
	classes []string
}

func (v *verdict) class(format string, args ...any) {
	v.classes = append(v.classes, fmt.Sprintf(format, args...))
}

func (v *verdict) failf(format string, args ...any) *verdict {
	v.viol = fmt.Sprintf(format, args...)
	return v
}

// judge dispatches on the part and turns panics of the code under test into
// violations.
func judge(c *Case) (v *verdict) {
	v = &verdict{}
	defer func() {
		if p := recover(); p != nil {
			v.viol = fmt.Sprintf("panic: %v", p)
		}
	}()
	switch c.Part {
	case "cutoff":
		return judgeCutoff(c, v)
	case "lines":
		return judgeLines(c, v)
	case "hashed":
		return judgeHashed(c, v)
	case "preempt":
		return judgePreempt(c, v)
	case "valve":
		return judgeValve(c, v)
	case "valve-concurrent":
		return judgeValveConcurrent(c, v)
	case "closers":
		return judgeClosers(c, v)
	case "audit":
		return judgeAudit(c, v)
	}
	return v.failf("harness: unknown part %q", c.Part)
}

func sameErr(a, b error) bool { return a == b }

// ---------------------------------------------------------------- cutoff

// judgeCutoff. Contract (NewCutoffWriter): writes are forwarded until N bytes
// have been written; from then on writes succeed without reaching the
// underlying writer. Model: rem bytes may still be forwarded. A write offers
// data[:min(len, rem)] downstream; a downstream error is returned with the
// downstream count; otherwise the whole write is reported as written.
// Globally, downstream holds exactly the first N bytes of the stream of bytes
// reported as written.
func judgeCutoff(c *Case, v *verdict) *verdict {
	s := newSink(c.Sink)
	w := stream.NewCutoffWriter(s, uint(c.Cutoff))
	rem := c.Cutoff
	var acc []byte
	src := 0
	truncated, stumbled, after := false, false, 0
	for i, ln := range c.Writes {
		data := payload(src, ln)
		src += ln
		wantN, wantPos := ln, s.pos
		var wantErr error
		if rem == 0 {
			after++
		} else {
			fwd := data[:min(uint64(ln), rem)]
			k, e := s.predictor().Write(fwd)
			wantPos += k
			if e != nil {
				wantN, wantErr = k, e
				rem -= uint64(k)
				stumbled = true
			} else {
				rem -= uint64(len(fwd))
				if len(fwd) < ln {
					truncated = true
				}
			}
		}
		n, err := w.Write(data)
		if n != wantN || !sameErr(err, wantErr) {
			return v.failf("write #%d (%d bytes): cutoff writer returned (%d, %v), contract gives (%d, %v)", i, ln, n, err, wantN, wantErr)
		}
		if s.pos != wantPos {
			return v.failf("write #%d (%d bytes): downstream now holds %d bytes, contract gives %d", i, ln, s.pos, wantPos)
		}
		acc = append(acc, data[:wantN]...)
	}
	want := acc[:min(uint64(len(acc)), c.Cutoff)]
	if !bytes.Equal(s.got, want) {
		d := firstDiff(s.got, want)
		return v.failf("downstream received %d bytes, expected exactly the first %d bytes reported as written (first difference at offset %d)", len(s.got), len(want), d)
	}
	switch {
	case c.Cutoff == 0:
		v.class("cutoff/zero")
	case c.Cutoff >= uint64(src):
		v.class("cutoff/not-reached-or-at-end")
	default:
		v.class("cutoff/inside-stream")
	}
	if truncated {
		v.class("truncated-write")
	}
	if stumbled {
		v.class("downstream-error-before-cutoff")
	}
	if after > 0 {
		v.class("writes-after-cutoff")
	}
	v.nt = truncated || stumbled
	return v
}

// ---------------------------------------------------------------- lines

const (
	// Under MaximumBufferSize == 0 the processor uses "a reasonable default"
	// that its documentation does not quantify. The oracle only assumes that
	// the default lies between these two bounds (it is 64 KiB in the code).
	defaultLimitAtLeast = 4 << 10
	defaultLimitAtMost  = 1 << 20
)

// judgeLines. Contract (LineProcessor): the stream of accepted bytes is split
// at every '\n'; each line is delivered once, in order, without the '\n' and
// without one trailing '\r'; an incomplete last line is kept until completed.
// A write is either accepted whole (len, nil) or rejected whole with (0,
// ErrMaximumBufferSizeExceeded); it may be rejected only if a limit is set and
// kept bytes + len(data) exceed it, and it must be rejected then if data
// contains no newline (the buffer would really exceed the limit).
func judgeLines(c *Case, v *verdict) *verdict {
	var got []string
	p := &stream.LineProcessor{Callback: func(s string) { got = append(got, s) }, MaximumBufferSize: c.MaxBuffer}
	var pending []byte  // model: bytes of the incomplete last line
	var accepted []byte // all accepted bytes
	var want []string   // all lines the model has delivered
	splitLine, splitCRLF, rejected, crTrim := false, false, false, false
	mustSeen, overWithNL := false, false
	for i, data := range c.Frags {
		before := len(got)
		size := len(pending) + len(data)
		hasNL := bytes.IndexByte(data, '\n') >= 0
		mayReject, mustReject := false, false
		switch {
		case c.MaxBuffer > 0:
			mayReject = size > c.MaxBuffer
			mustReject = mayReject && !hasNL
		case c.MaxBuffer == 0:
			mayReject = size > defaultLimitAtLeast
			mustReject = size > defaultLimitAtMost && !hasNL
		}
		if mustReject {
			v.nt = true
			mustSeen = true
		} else if mayReject && c.MaxBuffer > 0 {
			overWithNL = true
		}
		n, err := p.Write(data)
		if err != nil {
			if !mayReject {
				return v.failf("write #%d (%d bytes, %d kept, MaximumBufferSize %d) was rejected with (%d, %v) although the limit is not exceeded", i, len(data), len(pending), c.MaxBuffer, n, err)
			}
			if n != 0 || err != stream.ErrMaximumBufferSizeExceeded {
				return v.failf("write #%d rejected with (%d, %v), expected (0, ErrMaximumBufferSizeExceeded)", i, n, err)
			}
			if len(got) != before {
				return v.failf("write #%d was rejected but delivered %d line(s)", i, len(got)-before)
			}
			rejected = true
			continue
		}
		if mustReject {
			return v.failf("write #%d (%d bytes without newline, %d kept) was accepted although the buffer then exceeds MaximumBufferSize %d", i, len(data), len(pending), c.MaxBuffer)
		}
		if n != len(data) {
			return v.failf("write #%d of %d bytes returned (%d, nil)", i, len(data), n)
		}
		if len(pending) > 0 && hasNL {
			splitLine = true
			if pending[len(pending)-1] == '\r' && data[0] == '\n' {
				splitCRLF = true
			}
		}
		accepted = append(accepted, data...)
		pending = append(pending, data...)
		for {
			j := bytes.IndexByte(pending, '\n')
			if j < 0 {
				break
			}
			line := pending[:j]
			if j > 0 && line[j-1] == '\r' {
				line = line[:j-1]
				crTrim = true
			}
			want = append(want, string(line))
			pending = pending[j+1:]
		}
		if len(got) != len(want) {
			return v.failf("after write #%d: %d line(s) delivered in total, expected %d; last delivered %s, last expected %s", i, len(got), len(want), lastOf(got), lastOf(want))
		}
		for j := before; j < len(want); j++ {
			if got[j] != want[j] {
				return v.failf("after write #%d: line %d delivered as %q, expected %q", i, j, clipS(got[j]), clipS(want[j]))
			}
		}
	}
	// Second formulation, from the whole accepted stream at once.
	all := bytes.Split(accepted, []byte{'\n'})
	all = all[:len(all)-1]
	if len(all) != len(got) {
		return v.failf("%d lines delivered, the accepted stream contains %d complete lines", len(got), len(all))
	}
	for j, l := range all {
		l = bytes.TrimSuffix(l, []byte{'\r'})
		if string(l) != got[j] {
			return v.failf("line %d delivered as %q, the accepted stream has %q", j, clipS(got[j]), clipS(string(l)))
		}
	}
	switch {
	case c.MaxBuffer < 0:
		v.class("limit/none")
	case c.MaxBuffer == 0:
		v.class("limit/default")
	default:
		v.class("limit/explicit")
	}
	if splitLine {
		v.class("line-split-across-writes")
	}
	if splitCRLF {
		v.class("crlf-split-across-writes")
	}
	if crTrim {
		v.class("cr-trimmed")
	}
	if rejected {
		v.class("write-rejected-by-limit")
	}
	if mustSeen {
		v.class("limit-must-reject-exercised")
		if c.MaxBuffer == 0 {
			v.class("limit-must-reject-exercised/default-limit")
		}
	}
	if overWithNL {
		v.class("over-limit-write-containing-newline")
	}
	if len(pending) > 0 {
		v.class("incomplete-last-line")
	}
	v.nt = v.nt || splitLine || rejected
	return v
}

func lastOf(s []string) string {
	if len(s) == 0 {
		return "(none)"
	}
	return fmt.Sprintf("%q", clipS(s[len(s)-1]))
}

func clipS(s string) string {
	if len(s) > 60 {
		return fmt.Sprintf("%s...(%d bytes)", s[:40], len(s))
	}
	return s
}

// ---------------------------------------------------------------- hashed

func newHash(name string) hash.Hash {
	switch name {
	case "sha256":
		return sha256.New()
	case "fnv64a":
		return fnv.New64a()
	case "crc32":
		return crc32.NewIEEE()
	}
	return sha1.New()
}

// judgeHashed. Contract (NewHashedWriter): the hash processes all bytes that
// are successfully written to the underlying writer — those and no others —
// and the write result is the underlying writer's.
func judgeHashed(c *Case, v *verdict) *verdict {
	s := newSink(c.Sink)
	s.ref = newHash(c.Hash)
	h := newHash(c.Hash)
	w := stream.NewHashedWriter(s, h)
	src := 0
	short := false
	var acc []byte
	for i, ln := range c.Writes {
		data := payload(src, ln)
		src += ln
		wantN, wantErr := s.predictor().Write(data)
		if wantN < ln {
			short = true
		}
		n, err := w.Write(data)
		if n != wantN || !sameErr(err, wantErr) {
			return v.failf("write #%d (%d bytes): hashed writer returned (%d, %v), downstream accepts (%d, %v)", i, ln, n, err, wantN, wantErr)
		}
		acc = append(acc, data[:wantN]...)
		if !bytes.Equal(h.Sum(nil), s.ref.Sum(nil)) {
			return v.failf("after write #%d (%d bytes, %d accepted downstream): digest %x differs from the digest %x of the %d bytes downstream accepted", i, ln, wantN, h.Sum(nil), s.ref.Sum(nil), s.pos)
		}
	}
	if !bytes.Equal(s.got, acc) {
		return v.failf("downstream content differs from the accepted prefixes of the writes (first difference at offset %d)", firstDiff(s.got, acc))
	}
	// The digest of the downstream record, computed afresh.
	chk := newHash(c.Hash)
	chk.Write(s.got)
	if !bytes.Equal(chk.Sum(nil), h.Sum(nil)) {
		return v.failf("final digest %x differs from the digest %x of the downstream bytes", h.Sum(nil), chk.Sum(nil))
	}
	v.class("hash/%s", c.Hash)
	if short {
		v.class("short-write-downstream")
	}
	v.nt = short
	return v
}

// ---------------------------------------------------------------- preempt

// judgePreempt. Contract (NewPreemptableWriter): interval is the maximum
// number of Write calls processed between cancellation checks; with interval 0
// every write checks first. Hence: before cancellation every write is passed
// through unchanged; after cancellation at most `interval` further writes
// reach downstream, the next one returns (0, ErrWritePreempted) without
// reaching downstream, and so does every later one.
func judgePreempt(c *Case, v *verdict) *verdict {
	s := newSink(c.Sink)
	var ch chan struct{}
	if !c.NilChannel {
		ch = make(chan struct{})
	}
	w := stream.NewPreemptableWriter(s, ch, c.Interval)
	src := 0
	cancelled, preempted := false, false
	passedAfter := uint(0)
	var acc []byte // bytes of the passed-through writes that downstream accepts
	for i, ln := range c.Writes {
		if i == c.CancelBefore && ch != nil && !cancelled {
			close(ch)
			cancelled = true
		}
		data := payload(src, ln)
		src += ln
		wantN, wantErr := s.predictor().Write(data)
		posBefore, callsBefore := s.pos, s.calls
		n, err := w.Write(data)
		if err == stream.ErrWritePreempted {
			// Preempted: legitimate only after cancellation.
			if !cancelled {
				return v.failf("write #%d returned ErrWritePreempted although the channel was never closed", i)
			}
			if n != 0 || s.calls != callsBefore || s.pos != posBefore {
				return v.failf("write #%d returned (%d, ErrWritePreempted) but %d byte(s) reached downstream in %d call(s)", i, n, s.pos-posBefore, s.calls-callsBefore)
			}
			preempted = true
			continue
		}
		// Passed through.
		if preempted {
			return v.failf("write #%d reached downstream after an earlier write had been preempted", i)
		}
		if cancelled {
			passedAfter++
			if passedAfter > c.Interval {
				return v.failf("write #%d reached downstream: %d writes processed after cancellation with check interval %d", i, passedAfter, c.Interval)
			}
		}
		if n != wantN || !sameErr(err, wantErr) {
			return v.failf("write #%d (%d bytes): preemptable writer returned (%d, %v), downstream accepts (%d, %v)", i, ln, n, err, wantN, wantErr)
		}
		if s.pos != posBefore+wantN {
			return v.failf("write #%d: downstream accepted %d bytes, expected %d", i, s.pos-posBefore, wantN)
		}
		acc = append(acc, data[:wantN]...)
	}
	if !bytes.Equal(s.got, acc) {
		return v.failf("downstream content differs from the bytes of the passed-through writes (first difference at offset %d)", firstDiff(s.got, acc))
	}
	v.class("interval/%d", min(c.Interval, 6))
	switch {
	case c.NilChannel:
		v.class("nil-channel")
	case !cancelled:
		v.class("never-cancelled")
	case preempted:
		v.class("cancelled-and-preempted")
		v.class("passed-after-cancel/%d", min(passedAfter, 6))
	default:
		v.class("cancelled-near-end")
	}
	v.nt = preempted
	return v
}

// ---------------------------------------------------------------- valve

// judgeValve. Contract (ValveWriter): writes are forwarded until Shut; after
// Shut (or when constructed with a nil writer) they succeed with the full
// length and never reach the underlying writer.
func judgeValve(c *Case, v *verdict) *verdict {
	s := newSink(c.Sink)
	var w *stream.ValveWriter
	if c.PreShut {
		w = stream.NewValveWriter(nil)
	} else {
		w = stream.NewValveWriter(s)
	}
	shut := c.PreShut
	src := 0
	before, after := 0, 0
	var acc []byte
	for i, ln := range c.Writes {
		if i == c.ShutBefore || (c.ShutTwice && i == c.ShutBefore+1) {
			w.Shut()
			shut = true
		}
		data := payload(src, ln)
		src += ln
		wantN, wantErr, wantPos := ln, error(nil), s.pos
		if !shut {
			wantN, wantErr = s.predictor().Write(data)
			wantPos += wantN
			before++
		} else {
			after++
		}
		n, err := w.Write(data)
		if n != wantN || !sameErr(err, wantErr) {
			return v.failf("write #%d (%d bytes, valve shut: %v): returned (%d, %v), contract gives (%d, %v)", i, ln, shut, n, err, wantN, wantErr)
		}
		if s.pos != wantPos {
			return v.failf("write #%d (valve shut: %v): downstream now holds %d bytes, contract gives %d", i, shut, s.pos, wantPos)
		}
		if !shut {
			acc = append(acc, data[:wantN]...)
		}
	}
	if !bytes.Equal(s.got, acc) {
		return v.failf("downstream content differs from the bytes written while the valve was open (first difference at offset %d)", firstDiff(s.got, acc))
	}
	switch {
	case c.PreShut:
		v.class("pre-shut")
	case !shut:
		v.class("never-shut")
	default:
		v.class("shut-midway")
	}
	v.nt = shut && !c.PreShut && before > 0 && after > 0
	return v
}

// gate is the downstream writer of the concurrent valve part. It does not
// touch shared memory except through atomics, so it stays well defined even
// if the code under test fails to serialize. Every write's data starts with
// its 4-byte index, which lets the gate tell which write it is serving.
type gate struct {
	entries atomic.Int64
	// startedAfter[i] is set by the writing goroutine when it begins write i
	// after Shut has already returned.
	startedAfter []atomic.Bool
	late         atomic.Int64
	lateIndex    atomic.Int64
}

func (g *gate) Write(p []byte) (int, error) {
	g.entries.Add(1)
	runtime.Gosched() // give the shutting goroutine a chance to interleave
	if len(p) >= 4 {
		i := int(p[0]) | int(p[1])<<8 | int(p[2])<<16 | int(p[3])<<24
		if i < len(g.startedAfter) && g.startedAfter[i].Load() {
			g.late.Add(1)
			g.lateIndex.Store(int64(i))
		}
	}
	return len(p), nil
}

const concurrentRounds = 8

// judgeValveConcurrent. Shut is called while other goroutines write. The
// contract ("Shut closes the valve and prevents future writes to the
// underlying writer"; safe to call concurrently with Write, without
// preempting pending writes) gives a schedule-independent rule: a Write call
// that begins after Shut has returned never reaches the underlying writer.
// (Writes already pending when Shut is called may or may not get through.)
// Every write reports full success. The verdict never depends on timing; each
// case is executed concurrentRounds times for more interleavings.
func judgeValveConcurrent(c *Case, v *verdict) *verdict {
	total := len(c.Writes)
	gor := max(c.Goroutines, 1)
	datas := make([][]byte, total)
	for i, ln := range c.Writes {
		d := make([]byte, max(ln, 4))
		copy(d, payload(i, len(d)))
		d[0], d[1], d[2], d[3] = byte(i), byte(i>>8), byte(i>>16), byte(i>>24)
		datas[i] = d
	}
	midway, afterShut := false, false
	for round := 0; round < concurrentRounds; round++ {
		g := &gate{startedAfter: make([]atomic.Bool, total)}
		w := stream.NewValveWriter(g)
		var shutReturned atomic.Bool
		var started atomic.Int64
		var bad atomic.Pointer[string]
		var wg sync.WaitGroup
		threshold := int64(min(max(c.ShutBefore, 0), total))
		wg.Add(1)
		go func() {
			defer wg.Done()
			for started.Load() < threshold {
				runtime.Gosched()
			}
			w.Shut()
			shutReturned.Store(true)
		}()
		for k := 0; k < gor; k++ {
			wg.Add(1)
			go func(k int) {
				defer wg.Done()
				for i := k; i < total; i += gor {
					started.Add(1)
					if shutReturned.Load() {
						g.startedAfter[i].Store(true)
					}
					n, err := w.Write(datas[i])
					if n != len(datas[i]) || err != nil {
						m := fmt.Sprintf("concurrent write #%d (%d bytes) returned (%d, %v); a valve over a never-failing writer always reports (len, nil)", i, len(datas[i]), n, err)
						bad.Store(&m)
					}
				}
			}(k)
		}
		wg.Wait()
		if m := bad.Load(); m != nil {
			return v.failf("%s", *m)
		}
		if g.late.Load() > 0 {
			return v.failf("round %d: write #%d began after Shut had returned and still reached the underlying writer (%d such write(s); %d of %d writes reached it)", round, g.lateIndex.Load(), g.late.Load(), g.entries.Load(), total)
		}
		// The valve is shut now: one more write must not get through.
		e := g.entries.Load()
		if n, err := w.Write([]byte("x")); n != 1 || err != nil || g.entries.Load() != e {
			return v.failf("round %d: a write after Shut returned (%d, %v); reached downstream: %v", round, n, err, g.entries.Load() != e)
		}
		if e > 0 && e < int64(total) {
			midway = true
		}
		for i := range g.startedAfter {
			if g.startedAfter[i].Load() {
				afterShut = true
			}
		}
	}
	v.class("goroutines/%d", gor)
	if midway {
		v.class("shut-took-effect-midway")
	}
	if afterShut {
		v.class("writes-began-after-shut")
	}
	v.nt = midway && afterShut
	return v
}

// ---------------------------------------------------------------- closers

type member struct {
	id  int
	err error
	log *[]int
}

func (m *member) Close() error {
	*m.log = append(*m.log, m.id)
	return m.err
}

var closeErrs = func() []error {
	e := make([]error, 16)
	for i := range e {
		e[i] = fmt.Errorf("close error %d", i)
	}
	return e
}()

// judgeClosers. Contract (NewMultiCloser): the closers are closed in the order
// specified, all of them (each exactly once per Close), and the first error
// encountered is returned.
func judgeClosers(c *Case, v *verdict) *verdict {
	var log []int
	var ms []io.Closer
	var want error
	failing, firstFailing := 0, -1
	for i, k := range c.Closers {
		m := &member{id: i, log: &log}
		if k > 0 {
			m.err = closeErrs[k%len(closeErrs)]
			failing++
			if want == nil {
				want, firstFailing = m.err, i
			}
		}
		ms = append(ms, m)
	}
	err := stream.NewMultiCloser(ms...).Close()
	if len(log) != len(ms) {
		return v.failf("%d Close call(s) on %d members (call order %v)", len(log), len(ms), log)
	}
	for i, id := range log {
		if id != i {
			return v.failf("members closed in order %v, expected the specified order with each member once", log)
		}
	}
	if !sameErr(err, want) {
		return v.failf("Close returned %v, the first failing member (#%d) returned %v", err, firstFailing, want)
	}
	v.class("members/%d", min(len(ms), 4))
	v.class("failing/%d", min(failing, 3))
	v.nt = failing >= 2 || firstFailing > 0
	return v
}

// ---------------------------------------------------------------- audit

// judgeAudit. Contract (NewAuditWriter): the auditor receives the written
// byte counts (so its total equals the bytes downstream accepted) and the
// write result is the underlying writer's; a nil auditor returns the writer
// itself.
func judgeAudit(c *Case, v *verdict) *verdict {
	s := newSink(c.Sink)
	var total uint64
	var w io.Writer
	if c.NilAuditor {
		w = stream.NewAuditWriter(s, nil)
		if w != io.Writer(s) {
			return v.failf("NewAuditWriter(writer, nil) did not return the writer unmodified")
		}
	} else {
		w = stream.NewAuditWriter(s, func(n uint64) { total += n })
	}
	src := 0
	short := false
	var acc []byte
	for i, ln := range c.Writes {
		data := payload(src, ln)
		src += ln
		wantN, wantErr := s.predictor().Write(data)
		if wantN < ln {
			short = true
		}
		seen := total
		n, err := w.Write(data)
		if n != wantN || !sameErr(err, wantErr) {
			return v.failf("write #%d (%d bytes): audit writer returned (%d, %v), downstream accepts (%d, %v)", i, ln, n, err, wantN, wantErr)
		}
		if !c.NilAuditor && total-seen != uint64(wantN) {
			return v.failf("write #%d (%d bytes, %d accepted downstream): the auditor was told %d", i, ln, wantN, total-seen)
		}
		acc = append(acc, data[:wantN]...)
	}
	if !bytes.Equal(s.got, acc) {
		return v.failf("downstream content differs from the accepted prefixes of the writes (first difference at offset %d)", firstDiff(s.got, acc))
	}
	if !c.NilAuditor && total != uint64(s.pos) {
		return v.failf("auditor total %d, downstream accepted %d bytes", total, s.pos)
	}
	if c.NilAuditor {
		v.class("nil-auditor")
	}
	if short {
		v.class("short-write-downstream")
	}
	v.nt = short
	return v
}
