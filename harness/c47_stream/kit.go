// Package c47_stream checks C47: the writer / closer wrappers of pkg/stream
// honour their contracts over scripted downstream writers that accept, write
// short or fail at chosen byte positions.
//
// Every part has the shape generator -> Case -> judge(case) (violation,
// classes). The oracles are small models written from the documented
// contracts; none of them calls the wrapper it judges.
package c47_stream

import (
	"errors"
	"fmt"
	"hash"
	"io"
)

// Error selectors of the scripted downstream writer.
const (
	ErrShort  = 0 // io.ErrShortWrite
	ErrCustom = 1 // a private sentinel
)

var errDown = errors.New("scripted downstream failure")

func downErr(kind int) error {
	if kind == ErrCustom {
		return errDown
	}
	return io.ErrShortWrite
}

// SinkScript describes the downstream writer by positions in the stream of
// bytes it has accepted: at every position listed in Stumbles one write is cut
// short there and returns an error (a stumble at the sink's current position
// accepts nothing). After a stumble the sink accepts again (a caller may or
// may not continue). With Eager, a write that ends exactly at a stumble
// position is accepted in full and still returns the error. An empty write
// never fails. The sink honours io.Writer: a short count always comes with an
// error.
type SinkScript struct {
	Stumbles []int `json:"stumbles,omitempty"`
	Err      int   `json:"err,omitempty"`
	Eager    bool  `json:"eager,omitempty"`
}

// sink is the scripted downstream writer. The same type, without recording,
// predicts the outcome of forwarding given bytes (its behaviour depends on
// byte positions only, so the prediction does not care how a wrapper slices
// what it forwards).
type sink struct {
	script SinkScript
	next   int // next stumble
	pos    int // bytes accepted so far
	record bool
	got    []byte
	calls  int
	ref    hash.Hash // optional: digests exactly the accepted bytes
	enter  func()    // optional: called at the start of every Write
	leave  func()    // optional: called at the end of every Write
}

func newSink(s SinkScript) *sink { return &sink{script: s, record: true} }

// predictor returns a non-recording copy in the same state.
func (s *sink) predictor() *sink {
	return &sink{script: s.script, next: s.next, pos: s.pos}
}

func (s *sink) Write(p []byte) (int, error) {
	if s.enter != nil {
		s.enter()
	}
	if s.leave != nil {
		defer s.leave()
	}
	s.calls++
	n := len(p)
	var err error
	if s.next < len(s.script.Stumbles) {
		at := s.script.Stumbles[s.next]
		if s.pos+n > at {
			n = max(at-s.pos, 0)
			err = downErr(s.script.Err)
			s.next++
		} else if s.script.Eager && n > 0 && s.pos+n == at {
			err = downErr(s.script.Err)
			s.next++
		}
	}
	if s.record {
		s.got = append(s.got, p[:n]...)
	}
	if s.ref != nil {
		s.ref.Write(p[:n])
	}
	s.pos += n
	return n, err
}

// Payload: the byte at stream position p is pattern[p%251]; any loss,
// duplication or shift of bytes changes the data.
const period = 251

var pattern = func() []byte {
	p := make([]byte, 1<<18)
	for i := range p {
		p[i] = byte(i % period)
	}
	return p
}()

func payload(pos, n int) []byte {
	off := pos % period
	if off+n > len(pattern) {
		b := make([]byte, n)
		for i := range b {
			b[i] = byte((pos + i) % period)
		}
		return b
	}
	return pattern[off : off+n : off+n]
}

// Case is what replay files hold; Part selects the judge and the fields used.
type Case struct {
	Part string `json:"part"`
	// Writes are the lengths of the successive Write calls; their content is
	// the payload stream (cutoff, hashed, preemptable, valve, audit parts).
	Writes []int `json:"writes,omitempty"`
	// Sink scripts the downstream writer.
	Sink SinkScript `json:"sink"`

	// Cutoff is NewCutoffWriter's limit.
	Cutoff uint64 `json:"cutoff,omitempty"`

	// Frags are the successive writes into the line processor; MaxBuffer is
	// its MaximumBufferSize.
	Frags     [][]byte `json:"frags,omitempty"`
	MaxBuffer int      `json:"max_buffer,omitempty"`

	// Hash selects the hash function of the hashed writer.
	Hash string `json:"hash,omitempty"`

	// Interval is the preemptable writer's check interval; the cancellation
	// channel is closed before write number CancelBefore (0-based; a value
	// >= len(Writes) or < 0 means never); NilChannel passes a nil channel.
	Interval     uint `json:"interval,omitempty"`
	CancelBefore int  `json:"cancel_before,omitempty"`
	NilChannel   bool `json:"nil_channel,omitempty"`

	// Valve: Shut is called before write number ShutBefore (0-based; >= len
	// or < 0: never), ShutTwice calls it again one write later; PreShut
	// constructs the valve with a nil writer. Concurrent part: Goroutines
	// writers perform the Writes round-robin, Shut is called by another
	// goroutine once ShutBefore writes have started.
	ShutBefore int  `json:"shut_before,omitempty"`
	ShutTwice  bool `json:"shut_twice,omitempty"`
	PreShut    bool `json:"pre_shut,omitempty"`
	Goroutines int  `json:"goroutines,omitempty"`

	// Closers: one entry per member of the multi-closer; 0 = Close returns
	// nil, k > 0 = Close returns error number k.
	Closers []int `json:"closers,omitempty"`

	// NilAuditor passes a nil auditor to NewAuditWriter.
	NilAuditor bool `json:"nil_auditor,omitempty"`
}

func (c *Case) Render() string {
	s := c.Part + ":"
	if len(c.Writes) > 0 {
		s += fmt.Sprintf(" writes=%v", clipInts(c.Writes))
	}
	if len(c.Sink.Stumbles) > 0 {
		s += fmt.Sprintf(" sink-stumbles=%v err=%d eager=%v", c.Sink.Stumbles, c.Sink.Err, c.Sink.Eager)
	}
	switch c.Part {
	case "cutoff":
		s += fmt.Sprintf(" cutoff=%d", c.Cutoff)
	case "lines":
		s += fmt.Sprintf(" max-buffer=%d frags=", c.MaxBuffer)
		for i, f := range c.Frags {
			if i == 12 {
				s += fmt.Sprintf("...(%d fragments)", len(c.Frags))
				break
			}
			if len(f) > 40 {
				s += fmt.Sprintf("%q...(%d bytes) ", f[:20], len(f))
			} else {
				s += fmt.Sprintf("%q ", f)
			}
		}
	case "hashed":
		s += " hash=" + c.Hash
	case "preempt":
		s += fmt.Sprintf(" interval=%d cancel-before=%d nil-channel=%v", c.Interval, c.CancelBefore, c.NilChannel)
	case "valve", "valve-concurrent":
		s += fmt.Sprintf(" shut-before=%d twice=%v pre-shut=%v goroutines=%d", c.ShutBefore, c.ShutTwice, c.PreShut, c.Goroutines)
	case "closers":
		s += fmt.Sprintf(" closers=%v", c.Closers)
	case "audit":
		s += fmt.Sprintf(" nil-auditor=%v", c.NilAuditor)
	}
	return s
}

func clipInts(v []int) string {
	if len(v) <= 40 {
		return fmt.Sprint(v)
	}
	return fmt.Sprintf("%v...(%d)", v[:40], len(v))
}

func clip(b []byte) string {
	if len(b) <= 24 {
		return fmt.Sprintf("%v", b)
	}
	return fmt.Sprintf("%v...(%d bytes)...%v", b[:8], len(b), b[len(b)-8:])
}

// firstDiff returns the first index at which a and b differ (or the shorter
// length).
func firstDiff(a, b []byte) int {
	n := min(len(a), len(b))
	for i := 0; i < n; i++ {
		if a[i] != b[i] {
			return i
		}
	}
	return n
}
