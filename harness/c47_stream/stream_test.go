package c47_stream

import (
	"sort"
	"testing"

	"pgregory.net/rapid"

	"verif/kit/ev"
)

const prop = "C47"

var rules = map[string]string{
	"cutoff":           "rapid: 1..24 writes of 0..100 kB, cutoff 0 / 1 / at, just before or after a write boundary / inside a write / beyond the end / huge, downstream stumbling (short count + error) at up to 3 byte positions; non-trivial: a write is truncated by the cutoff or downstream fails before the cutoff",
	"lines":            "rapid: text of short words, '\\n', '\\r\\n', lone and doubled '\\r', arbitrary bytes and occasionally very long runs, cut into writes at random points, MaximumBufferSize none / default / small explicit; non-trivial: a line is completed by a later write than the one that started it, or a write is rejected by the limit",
	"hashed":           "rapid: writes over a stumbling downstream writer, four hash functions; non-trivial: downstream accepted fewer bytes than offered at least once",
	"preempt":          "rapid: check interval 0..5 (sometimes up to 40), up to 60 writes, cancellation before a random write or never or nil channel, stumbling downstream; non-trivial: cancellation is followed by enough writes for the preemption to be observed",
	"valve":            "rapid: writes with Shut before a random write (possibly twice), never, or valve constructed shut; non-trivial: writes both before and after the shut",
	"valve-concurrent": "rapid: 1..6 goroutines writing through one valve while another goroutine calls Shut after a chosen number of writes have started, each case run 8 times; non-trivial: in some round the shut took effect midway and some write began after Shut had returned",
	"closers":          "every multi-closer of 0..10 members, each succeeding or failing with its own error; non-trivial: the first failing member is not the first member, or several members fail",
	"audit":            "rapid: writes over a stumbling downstream writer with an auditor or a nil auditor; non-trivial: downstream accepted fewer bytes than offered at least once",
}

// drawWrites draws the write lengths: mostly small, sometimes up to 100 kB.
func drawWrites(rt *rapid.T, maxWrites int) []int {
	n := rapid.IntRange(1, maxWrites).Draw(rt, "writes")
	out := make([]int, n)
	big := rapid.IntRange(0, 9).Draw(rt, "big") == 0
	for i := range out {
		switch rapid.IntRange(0, 9).Draw(rt, "len.class") {
		case 0:
			out[i] = 0
		case 1:
			out[i] = 1
		case 2, 3, 4, 5:
			out[i] = rapid.IntRange(2, 40).Draw(rt, "len.small")
		case 6, 7:
			out[i] = rapid.IntRange(41, 4096).Draw(rt, "len.medium")
		default:
			if big {
				out[i] = rapid.IntRange(4097, 100000).Draw(rt, "len.big")
			} else {
				out[i] = rapid.IntRange(2, 300).Draw(rt, "len.mid")
			}
		}
	}
	return out
}

func sum(v []int) int {
	t := 0
	for _, x := range v {
		t += x
	}
	return t
}

// boundary draws a byte position related to the write boundaries: at, one
// before or one after the end of some write, or anywhere in the stream.
func boundary(rt *rapid.T, writes []int, label string) int {
	total := sum(writes)
	switch rapid.IntRange(0, 3).Draw(rt, label+".kind") {
	case 0:
		return rapid.IntRange(0, total).Draw(rt, label+".any")
	case 1:
		return rapid.IntRange(0, min(total, 3)).Draw(rt, label+".start")
	}
	j := rapid.IntRange(0, len(writes)-1).Draw(rt, label+".write")
	end := sum(writes[:j+1])
	return min(max(end+rapid.IntRange(-1, 1).Draw(rt, label+".delta"), 0), total)
}

// drawSink draws the downstream script: none, or 1..3 stumbles.
func drawSink(rt *rapid.T, writes []int, failing int) SinkScript {
	var s SinkScript
	if rapid.IntRange(0, 9).Draw(rt, "sink.fails") >= failing {
		return s
	}
	n := rapid.IntRange(1, 3).Draw(rt, "sink.stumbles")
	seen := map[int]bool{}
	for i := 0; i < n; i++ {
		p := boundary(rt, writes, "sink.at")
		if !seen[p] {
			seen[p] = true
			s.Stumbles = append(s.Stumbles, p)
		}
	}
	sort.Ints(s.Stumbles)
	s.Err = rapid.IntRange(0, 1).Draw(rt, "sink.err")
	s.Eager = rapid.IntRange(0, 4).Draw(rt, "sink.eager") == 0
	return s
}

func genCutoff(rt *rapid.T) *Case {
	c := &Case{Part: "cutoff"}
	c.Writes = drawWrites(rt, 24)
	total := sum(c.Writes)
	switch rapid.IntRange(0, 9).Draw(rt, "cutoff.kind") {
	case 0:
		c.Cutoff = 0
	case 1:
		c.Cutoff = 1
	case 2:
		c.Cutoff = uint64(total) + uint64(rapid.IntRange(0, 2).Draw(rt, "cutoff.beyond"))
	case 3:
		c.Cutoff = 1 << 40
	default:
		c.Cutoff = uint64(boundary(rt, c.Writes, "cutoff.at"))
	}
	c.Sink = drawSink(rt, c.Writes, 5)
	return c
}

var words = [][]byte{[]byte("a"), []byte("bc"), []byte("hello world"), []byte(" "), []byte("\t"), {0}, {0xff, 0xfe}, []byte("é"), []byte("\r"), []byte("x\ry")}

func genLines(rt *rapid.T) *Case {
	c := &Case{Part: "lines"}
	switch rapid.IntRange(0, 5).Draw(rt, "max.kind") {
	case 0:
		c.MaxBuffer = -1
	case 1, 2:
		c.MaxBuffer = 0
	default:
		c.MaxBuffer = rapid.IntRange(1, 48).Draw(rt, "max")
	}
	long := rapid.IntRange(0, 19).Draw(rt, "long") == 0
	huge := long && c.MaxBuffer == 0 && rapid.IntRange(0, 2).Draw(rt, "huge") == 0
	var text []byte
	// cut turns the text gathered so far into writes.
	cut := func() {
		for len(text) > 0 {
			var n int
			switch rapid.IntRange(0, 5).Draw(rt, "cut.class") {
			case 0:
				n = 0
			case 1, 2:
				n = 1
			case 3:
				n = rapid.IntRange(2, 8).Draw(rt, "cut.small")
			case 4:
				n = rapid.IntRange(2, 64).Draw(rt, "cut.mid")
			default:
				n = rapid.IntRange(1, len(text)).Draw(rt, "cut.any")
			}
			n = min(n, len(text))
			c.Frags = append(c.Frags, append([]byte{}, text[:n]...))
			text = text[n:]
			if len(c.Frags) >= 400 {
				c.Frags = append(c.Frags, append([]byte{}, text...))
				text = nil
			}
		}
	}
	run := func(n int) []byte {
		b := make([]byte, n)
		for j := range b {
			b[j] = 'a' + byte(j%26)
		}
		return b
	}
	tokens := rapid.IntRange(0, 60).Draw(rt, "tokens")
	for i := 0; i < tokens; i++ {
		switch rapid.IntRange(0, 11).Draw(rt, "token") {
		case 0, 1, 2:
			text = append(text, '\n')
		case 3, 4:
			text = append(text, '\r', '\n')
		case 5:
			text = append(text, '\r', '\r', '\n')
		case 6:
			if huge {
				// One write, without newline, larger than any reasonable
				// default limit.
				cut()
				c.Frags = append(c.Frags, run(defaultLimitAtMost+rapid.IntRange(1, 5000).Draw(rt, "hugerun")))
				huge = false
				continue
			}
			if long {
				text = append(text, run(rapid.IntRange(3000, 70000).Draw(rt, "run"))...)
				continue
			}
			fallthrough
		default:
			text = append(text, rapid.SampledFrom(words).Draw(rt, "word")...)
		}
	}
	cut()
	if len(c.Frags) == 0 {
		c.Frags = [][]byte{{}}
	}
	return c
}

func genHashed(rt *rapid.T) *Case {
	c := &Case{Part: "hashed"}
	c.Writes = drawWrites(rt, 16)
	c.Sink = drawSink(rt, c.Writes, 7)
	c.Hash = rapid.SampledFrom([]string{"sha1", "sha256", "fnv64a", "crc32"}).Draw(rt, "hash")
	return c
}

func genPreempt(rt *rapid.T) *Case {
	c := &Case{Part: "preempt"}
	n := rapid.IntRange(1, 60).Draw(rt, "writes")
	c.Writes = make([]int, n)
	for i := range c.Writes {
		c.Writes[i] = rapid.IntRange(0, 20).Draw(rt, "len")
	}
	c.Interval = uint(rapid.IntRange(0, 5).Draw(rt, "interval"))
	if rapid.IntRange(0, 9).Draw(rt, "interval.large") == 0 {
		c.Interval = uint(rapid.IntRange(6, 40).Draw(rt, "interval.n"))
	}
	switch rapid.IntRange(0, 9).Draw(rt, "cancel.kind") {
	case 0:
		c.CancelBefore = -1
	case 1:
		c.NilChannel = true
		c.CancelBefore = rapid.IntRange(0, n-1).Draw(rt, "cancel.ignored")
	case 2:
		c.CancelBefore = 0
	default:
		c.CancelBefore = rapid.IntRange(0, n-1).Draw(rt, "cancel")
	}
	c.Sink = drawSink(rt, c.Writes, 3)
	return c
}

func genValve(rt *rapid.T) *Case {
	c := &Case{Part: "valve"}
	c.Writes = drawWrites(rt, 16)
	n := len(c.Writes)
	switch rapid.IntRange(0, 9).Draw(rt, "shut.kind") {
	case 0:
		c.ShutBefore = -1
	case 1:
		c.PreShut = true
		c.ShutBefore = -1
	default:
		c.ShutBefore = rapid.IntRange(0, n-1).Draw(rt, "shut")
		c.ShutTwice = rapid.IntRange(0, 3).Draw(rt, "twice") == 0
	}
	c.Sink = drawSink(rt, c.Writes, 4)
	return c
}

func genValveConcurrent(rt *rapid.T) *Case {
	c := &Case{Part: "valve-concurrent"}
	n := rapid.IntRange(1, 120).Draw(rt, "writes")
	c.Writes = make([]int, n)
	for i := range c.Writes {
		c.Writes[i] = rapid.IntRange(4, 64).Draw(rt, "len")
	}
	c.Goroutines = rapid.IntRange(1, 6).Draw(rt, "goroutines")
	c.ShutBefore = rapid.IntRange(0, n).Draw(rt, "shut")
	return c
}

// TestClosers enumerates every multi-closer of 0..10 members in which each
// member either succeeds or fails with its own error.
func TestClosers(t *testing.T) {
	if ev.ReplayPath() != "" {
		t.Skip("replaying")
	}
	rec := ev.New(t, prop, "closers", rules["closers"])
	rec.SetExhaustive("0..10 members, every subset of failing members (each failing member returns a distinct error)")
	for n := 0; n <= 10; n++ {
		for mask := 0; mask < 1<<n; mask++ {
			c := &Case{Part: "closers", Closers: make([]int, n)}
			for i := range c.Closers {
				if mask&(1<<i) != 0 {
					c.Closers[i] = 1 + i
				}
			}
			v := judge(c)
			rec.Eval()
			if v.viol != "" {
				ev.FailTB(t, rec, c, "%s | %s", c.Render(), v.viol)
			}
			for _, cl := range v.classes {
				rec.Class(cl)
			}
			if v.nt {
				rec.Class("nontrivial")
				rec.NonTrivialDistinct(1)
				if rec.WantSample() && n == 4 && mask%5 == 2 {
					rec.Sample(map[string]any{"case": c.Render()})
				}
			}
		}
	}
}

func genAudit(rt *rapid.T) *Case {
	c := &Case{Part: "audit"}
	c.Writes = drawWrites(rt, 16)
	c.Sink = drawSink(rt, c.Writes, 7)
	c.NilAuditor = rapid.IntRange(0, 7).Draw(rt, "nil") == 0
	return c
}

func runPart(t *testing.T, part string, quick, thorough int, gen func(*rapid.T) *Case) {
	if ev.ReplayPath() != "" {
		t.Skip("replaying")
	}
	rec := ev.New(t, prop, part, rules[part])
	ev.Check(t, rec, quick, thorough, func(rt *rapid.T) {
		c := gen(rt)
		v := judge(c)
		rec.Eval()
		if v.viol != "" {
			ev.Failf(rt, rec, c, "%s | %s", c.Render(), v.viol)
		}
		for _, cl := range v.classes {
			rec.Class(cl)
		}
		if v.nt {
			rec.Class("nontrivial")
			rec.NonTrivial(ev.Hash(c.Render()))
			if rec.WantSample() && len(c.Writes) <= 8 && len(c.Frags) <= 8 {
				rec.Sample(map[string]any{"case": c.Render()})
			}
		}
	})
}

func TestCutoff(t *testing.T)  { runPart(t, "cutoff", 40000, 500000, genCutoff) }
func TestLines(t *testing.T)   { runPart(t, "lines", 30000, 300000, genLines) }
func TestHashed(t *testing.T)  { runPart(t, "hashed", 20000, 200000, genHashed) }
func TestPreempt(t *testing.T) { runPart(t, "preempt", 40000, 500000, genPreempt) }
func TestValve(t *testing.T)   { runPart(t, "valve", 20000, 200000, genValve) }
func TestValveConcurrent(t *testing.T) {
	runPart(t, "valve-concurrent", 3000, 40000, genValveConcurrent)
}
func TestAudit(t *testing.T)   { runPart(t, "audit", 20000, 200000, genAudit) }

func TestReplay(t *testing.T) {
	if ev.ReplayPath() == "" {
		t.Skip("no replay requested")
	}
	var c Case
	if _, err := ev.LoadReplay(ev.ReplayPath(), &c); err != nil {
		t.Fatalf("cannot load replay: %v", err)
	}
	rec := ev.New(t, prop, "replay", "replay of a saved case")
	rounds := 1
	if c.Part == "valve-concurrent" {
		rounds = 50 // the verdict is schedule-independent, the witness is not
	}
	for i := 0; i < rounds; i++ {
		v := judge(&c)
		rec.Eval()
		if v.viol != "" {
			ev.FailTB(t, rec, &c, "%s | %s", c.Render(), v.viol)
		}
	}
}
