// Package disk materialises generated trees on a real filesystem and observes
// them back with an independent lstat / readlink / read walk.
//
// Nothing here calls into mutagen's filesystem or scanning code: the observer
// is what scan and transition results are judged against.
package disk

import (
	"crypto/sha1"
	"crypto/sha256"
	"fmt"
	"os"
	"path/filepath"
	"sort"
	"strings"
	"syscall"
	"time"
	"unicode/utf8"

	"github.com/mutagen-io/mutagen/pkg/synchronization/core"
)

// Node kinds.
const (
	Dir  = "dir"
	File = "file"
	Link = "link"
	Fifo = "fifo"
)

// Node describes one filesystem object (and, for directories, its children).
type Node struct {
	Kind     string           `json:"kind"`
	Perm     uint32           `json:"perm,omitempty"`
	Data     []byte           `json:"data,omitempty"`
	Target   string           `json:"target,omitempty"`
	MTime    int64            `json:"mtime,omitempty"` // seconds; 0 = leave as created
	Children map[string]*Node `json:"children,omitempty"`

	// Observed-only fields.
	Ino   uint64 `json:"-"`
	MTimeN int64 `json:"-"` // nanoseconds
	Size  int64  `json:"-"`
	Err   string `json:"err,omitempty"` // read error (unreadable content)
}

// Names returns the sorted child names.
func (n *Node) Names() []string {
	if n == nil {
		return nil
	}
	out := make([]string, 0, len(n.Children))
	for k := range n.Children {
		out = append(out, k)
	}
	sort.Strings(out)
	return out
}

// At returns the node at a root-relative slash path.
func (n *Node) At(path string) *Node {
	if path == "" {
		return n
	}
	cur := n
	for _, c := range strings.Split(path, "/") {
		if cur == nil {
			return nil
		}
		cur = cur.Children[c]
	}
	return cur
}

// Clone deep-copies a node.
func (n *Node) Clone() *Node {
	if n == nil {
		return nil
	}
	c := *n
	c.Data = append([]byte(nil), n.Data...)
	if n.Children != nil {
		c.Children = make(map[string]*Node, len(n.Children))
		for k, v := range n.Children {
			c.Children[k] = v.Clone()
		}
	}
	return &c
}

// Build creates the node at path (which must not exist). Directories are
// created 0700 first and chmod'ed after their children exist.
func Build(path string, n *Node) error {
	if n == nil {
		return nil
	}
	switch n.Kind {
	case Dir:
		if err := os.Mkdir(path, 0o700); err != nil {
			return err
		}
		for _, name := range n.Names() {
			if err := Build(filepath.Join(path, name), n.Children[name]); err != nil {
				return err
			}
		}
		perm := n.Perm
		if perm == 0 {
			perm = 0o755
		}
		if err := os.Chmod(path, os.FileMode(perm)); err != nil {
			return err
		}
	case File:
		perm := n.Perm
		if perm == 0 {
			perm = 0o644
		}
		if err := os.WriteFile(path, n.Data, 0o600); err != nil {
			return err
		}
		if err := os.Chmod(path, os.FileMode(perm)); err != nil {
			return err
		}
	case Link:
		if err := os.Symlink(n.Target, path); err != nil {
			return err
		}
		return nil
	case Fifo:
		if err := syscall.Mkfifo(path, 0o644); err != nil {
			return err
		}
	default:
		return fmt.Errorf("unknown node kind %q", n.Kind)
	}
	if n.MTime != 0 {
		t := time.Unix(n.MTime, 0)
		if err := os.Chtimes(path, t, t); err != nil {
			return err
		}
	}
	return nil
}

// Observe walks path with lstat/readlink/read and returns what is there (nil
// when nothing exists).
func Observe(path string) (*Node, error) {
	fi, err := os.Lstat(path)
	if err != nil {
		if os.IsNotExist(err) {
			return nil, nil
		}
		return nil, err
	}
	n := &Node{Perm: uint32(fi.Mode().Perm()), MTime: fi.ModTime().Unix(), MTimeN: fi.ModTime().UnixNano(), Size: fi.Size()}
	if fi.Mode()&os.ModeSetuid != 0 {
		n.Perm |= 0o4000
	}
	if fi.Mode()&os.ModeSetgid != 0 {
		n.Perm |= 0o2000
	}
	if fi.Mode()&os.ModeSticky != 0 {
		n.Perm |= 0o1000
	}
	if st, ok := fi.Sys().(*syscall.Stat_t); ok {
		n.Ino = st.Ino
	}
	switch {
	case fi.Mode().IsDir():
		n.Kind = Dir
		entries, err := os.ReadDir(path)
		if err != nil {
			n.Err = err.Error()
			return n, nil
		}
		n.Children = map[string]*Node{}
		for _, e := range entries {
			c, err := Observe(filepath.Join(path, e.Name()))
			if err != nil {
				if os.IsPermission(err) {
					// Listable but not searchable: the entries cannot be
					// examined, the directory as a whole is unreadable.
					n.Err, n.Children = err.Error(), nil
					return n, nil
				}
				return nil, err
			}
			if c != nil {
				n.Children[e.Name()] = c
			}
		}
	case fi.Mode().IsRegular():
		n.Kind = File
		data, err := os.ReadFile(path)
		if err != nil {
			n.Err = err.Error()
		}
		n.Data = data
	case fi.Mode()&os.ModeSymlink != 0:
		n.Kind = Link
		n.Target, err = os.Readlink(path)
		if err != nil {
			n.Err = err.Error()
		}
	case fi.Mode()&os.ModeNamedPipe != 0:
		n.Kind = Fifo
	default:
		n.Kind = "other"
	}
	return n, nil
}

// Render gives a canonical text form. With identity set, inode numbers and
// nanosecond mtimes are included (for "nothing was touched" comparisons).
func (n *Node) Render(identity bool) string {
	var b strings.Builder
	n.render(&b, identity)
	return b.String()
}

func (n *Node) render(b *strings.Builder, identity bool) {
	if n == nil {
		b.WriteString("-")
		return
	}
	switch n.Kind {
	case Dir:
		fmt.Fprintf(b, "dir(%o", n.Perm)
	case File:
		fmt.Fprintf(b, "file(%o,%d:%x", n.Perm, len(n.Data), sha1.Sum(n.Data))
	case Link:
		fmt.Fprintf(b, "link(>%s", n.Target)
	default:
		fmt.Fprintf(b, "%s(", n.Kind)
	}
	if identity {
		fmt.Fprintf(b, ",ino=%d,mt=%d", n.Ino, n.MTimeN)
	}
	if n.Err != "" {
		b.WriteString(",err")
	}
	b.WriteString(")")
	if n.Kind == Dir {
		b.WriteString("{")
		for i, name := range n.Names() {
			if i > 0 {
				b.WriteString(" ")
			}
			fmt.Fprintf(b, "%q:", name)
			n.Children[name].render(b, identity)
		}
		b.WriteString("}")
	}
}

// ScanOpts selects the scan configuration whose expected snapshot is computed.
type ScanOpts struct {
	SymlinkMode core.SymbolicLinkMode
	PermMode    core.PermissionsMode
	SHA256      bool
	// Ignored tells whether a path is ignored (nil: nothing is).
	Ignored func(path string, directory bool) bool
	// Decide, if non-nil, replaces Ignored with the full ignorer contract:
	// status 0 nominal, 1 ignored, 2 unignored, plus "continue traversal" (an
	// ignored or masked directory that may hold unignored content is still
	// traversed, under an ignore mask, and reported as a phantom directory).
	Decide func(path string, directory bool) (status int, continueTraversal bool)
}

// TemporaryPrefix is the documented prefix of Mutagen's temporary files.
const TemporaryPrefix = ".mutagen-temporary-"

// Digest hashes data the way the selected configuration does.
func (o ScanOpts) Digest(data []byte) []byte {
	if o.SHA256 {
		s := sha256.Sum256(data)
		return s[:]
	}
	s := sha1.Sum(data)
	return s[:]
}

// PortableTarget is an independent statement of when a link target is
// acceptable in portable mode for a link at the given root-relative path: a
// lexical POSIX walk from the link's directory never leaves the root, the
// target is relative, non-empty, at most 247 bytes, and free of ':' and '\\'.
func PortableTarget(linkPath, target string) bool {
	if target == "" || len(target) > 247 || strings.ContainsAny(target, ":\\") || target[0] == '/' {
		return false
	}
	depth := strings.Count(linkPath, "/")
	for _, c := range strings.Split(target, "/") {
		switch c {
		case "", ".":
		case "..":
			depth--
		default:
			depth++
		}
		if depth < 0 {
			return false
		}
	}
	return true
}

// Expect computes the snapshot content a scan of the observed tree must
// report under the options, on a filesystem that preserves executability and
// does not decompose Unicode (what this sandbox provides). Problem texts are
// set to "*" (compare with EqualModuloProblems).
func Expect(n *Node, o ScanOpts) *core.Entry {
	return expect("", n, o, false)
}

func expect(path string, n *Node, o ScanOpts, mask bool) *core.Entry {
	if n == nil {
		return nil
	}
	switch n.Kind {
	case Dir:
		if n.Err != "" {
			return &core.Entry{Kind: core.EntryKind_Problematic, Problem: "*"}
		}
		e := &core.Entry{Kind: core.EntryKind_Directory}
		if mask {
			e.Kind = core.EntryKind_PhantomDirectory
		}
		for _, name := range n.Names() {
			if strings.HasPrefix(name, TemporaryPrefix) {
				continue
			}
			if e.Contents == nil {
				e.Contents = map[string]*core.Entry{}
			}
			if !utf8.ValidString(name) {
				if mask {
					e.Contents[strings.ToValidUTF8(name, "�")+" (non-UTF-8)"] = &core.Entry{Kind: core.EntryKind_Untracked}
				} else {
					e.Contents[strings.ToValidUTF8(name, "�")+" (non-UTF-8)"] = &core.Entry{Kind: core.EntryKind_Problematic, Problem: "*"}
				}
				continue
			}
			c := n.Children[name]
			cp := name
			if path != "" {
				cp = path + "/" + name
			}
			supported := c.Kind == Dir || c.Kind == File || c.Kind == Link
			if !supported {
				e.Contents[name] = &core.Entry{Kind: core.EntryKind_Untracked}
				continue
			}
			childMask := mask
			if o.Decide != nil {
				status, cont := o.Decide(cp, c.Kind == Dir)
				switch status {
				case 0:
					if mask && !cont {
						e.Contents[name] = &core.Entry{Kind: core.EntryKind_Untracked}
						continue
					}
				case 1:
					if !cont {
						e.Contents[name] = &core.Entry{Kind: core.EntryKind_Untracked}
						continue
					}
					childMask = true
				default:
					childMask = false
				}
			} else if o.Ignored != nil && o.Ignored(cp, c.Kind == Dir) {
				e.Contents[name] = &core.Entry{Kind: core.EntryKind_Untracked}
				continue
			}
			e.Contents[name] = expect(cp, c, o, childMask)
		}
		return e
	case File:
		if n.Err != "" {
			return &core.Entry{Kind: core.EntryKind_Problematic, Problem: "*"}
		}
		e := &core.Entry{Kind: core.EntryKind_File, Digest: o.Digest(n.Data)}
		if o.PermMode == core.PermissionsMode_PermissionsModePortable {
			e.Executable = n.Perm&0o111 != 0
		}
		return e
	case Link:
		switch o.SymlinkMode {
		case core.SymbolicLinkMode_SymbolicLinkModeIgnore:
			return &core.Entry{Kind: core.EntryKind_Untracked}
		case core.SymbolicLinkMode_SymbolicLinkModePortable:
			if !PortableTarget(path, n.Target) {
				return &core.Entry{Kind: core.EntryKind_Problematic, Problem: "*"}
			}
		default:
			if n.Target == "" {
				return &core.Entry{Kind: core.EntryKind_Problematic, Problem: "*"}
			}
		}
		return &core.Entry{Kind: core.EntryKind_SymbolicLink, Target: n.Target}
	}
	return &core.Entry{Kind: core.EntryKind_Untracked}
}

// EqualModuloProblems compares two snapshot contents deeply, treating any two
// non-empty problem texts as equal.
func EqualModuloProblems(a, b *core.Entry) (bool, string) {
	return equalMP("", a, b)
}

func equalMP(path string, a, b *core.Entry) (bool, string) {
	if a == nil || b == nil {
		if a == nil && b == nil {
			return true, ""
		}
		return false, fmt.Sprintf("at %q: one side absent", path)
	}
	if a.Kind != b.Kind || a.Executable != b.Executable || string(a.Digest) != string(b.Digest) || a.Target != b.Target || (a.Problem == "") != (b.Problem == "") {
		return false, fmt.Sprintf("at %q: kind %v/%v exec %v/%v digest %x/%x target %q/%q problem %q/%q", path, a.Kind, b.Kind, a.Executable, b.Executable, a.Digest, b.Digest, a.Target, b.Target, a.Problem, b.Problem)
	}
	if len(a.Contents) != len(b.Contents) {
		return false, fmt.Sprintf("at %q: child names differ: %v vs %v", path, names(a), names(b))
	}
	for n, ca := range a.Contents {
		cb, ok := b.Contents[n]
		if !ok {
			return false, fmt.Sprintf("at %q: child %q missing on one side", path, n)
		}
		p := n
		if path != "" {
			p = path + "/" + n
		}
		if ok, d := equalMP(p, ca, cb); !ok {
			return false, d
		}
	}
	return true, ""
}

func names(e *core.Entry) []string {
	var out []string
	for n := range e.Contents {
		out = append(out, n)
	}
	sort.Strings(out)
	return out
}

// Counts computes the directory / file / link / byte counters a snapshot of
// the observed tree must report: every entry that the expected snapshot lists
// with a synchronizable kind (sizes from the observed nodes).
func Counts(e *core.Entry, n *Node) (dirs, files, links, size uint64) {
	if e == nil || n == nil {
		return
	}
	switch e.Kind {
	case core.EntryKind_Directory, core.EntryKind_PhantomDirectory:
		dirs++
		for name, c := range e.Contents {
			d, f, l, s := Counts(c, n.Children[name])
			dirs, files, links, size = dirs+d, files+f, links+l, size+s
		}
	case core.EntryKind_File:
		files++
		size += uint64(len(n.Data))
	case core.EntryKind_SymbolicLink:
		links++
	}
	return
}

// MakeWritable restores permissions below path so that cleanup can remove it.
func MakeWritable(path string) {
	filepath.Walk(path, func(p string, fi os.FileInfo, err error) error {
		if err == nil && fi.IsDir() {
			os.Chmod(p, 0o700)
		}
		return nil
	})
}
