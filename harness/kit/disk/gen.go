package disk

import (
	"pgregory.net/rapid"
)

// Gen parametrises random on-disk trees.
type Gen struct {
	MaxDepth int
	MaxFan   int
	Names    []string
	// Exotic enables FIFOs, non-UTF-8 names, temporary-prefixed names and
	// non-portable link targets.
	Exotic bool
	// BigFiles enables files larger than the scanner's copy buffer.
	BigFiles bool
	// Links enables symbolic links.
	Links bool
}

// PlainNames are ordinary names.
var PlainNames = []string{"a", "b", "c", "d", "sub", "x.txt", "with space", "ünï"}

// ExoticNames contains a non-UTF-8 name and temporary-prefixed names.
var ExoticNames = []string{"bad\xff\xfename", TemporaryPrefix + "zz", TemporaryPrefix + "cross-device-rename1"}

var filePerms = []uint32{0o644, 0o600, 0o755, 0o700, 0o444, 0o640, 0o711, 0o604, 0o654}
var dirPerms = []uint32{0o755, 0o700, 0o750, 0o711, 0o744, 0o754}

// Content returns deterministic bytes for a content id and length, such that
// different ids give different bytes.
func Content(id byte, length int) []byte {
	b := make([]byte, length)
	x := uint32(id)*2654435761 + 12345
	for i := range b {
		x = x*1664525 + 1013904223
		b[i] = byte(x >> 24)
	}
	if length > 0 {
		b[0] = id
	}
	return b
}

// LinkTargets used by the generators; the portable ones first.
var portableTargets = []string{"a", "b/c", "./a", "sub/../a", "nonexistent", "."}
var nonPortableTargets = []string{"/etc/hostname", "a:b", "a\\b", "../../../../outside", "../../..", longTarget(248)}

func longTarget(n int) string {
	b := make([]byte, n)
	for i := range b {
		b[i] = 'x'
	}
	return string(b)
}

// LongestPortable is a 247-byte target (the documented maximum).
var LongestPortable = longTarget(247)

// File draws a file node.
func (g Gen) File(t *rapid.T, label string) *Node {
	sizes := []int{0, 1, 5, 100, 4096}
	if g.BigFiles {
		sizes = append(sizes, 32*1024, 32*1024+1, 70000, 200000)
	}
	return &Node{
		Kind:  File,
		Perm:  rapid.SampledFrom(filePerms).Draw(t, label+".perm"),
		Data:  Content(byte(rapid.IntRange(1, 6).Draw(t, label+".content")), rapid.SampledFrom(sizes).Draw(t, label+".size")),
		MTime: int64(1_600_000_000 + rapid.IntRange(0, 1000).Draw(t, label+".mtime")),
	}
}

// Leaf draws a non-directory node.
func (g Gen) Leaf(t *rapid.T, label string) *Node {
	k := rapid.IntRange(0, 9).Draw(t, label+".kind")
	switch {
	case k >= 8 && g.Exotic:
		return &Node{Kind: Fifo}
	case k >= 6 && g.Links:
		targets := portableTargets
		if g.Exotic {
			targets = append(append([]string{}, portableTargets...), nonPortableTargets...)
			targets = append(targets, LongestPortable, "../a", "../../a")
		}
		return &Node{Kind: Link, Target: rapid.SampledFrom(targets).Draw(t, label+".target")}
	default:
		return g.File(t, label)
	}
}

// Dir draws a directory with up to MaxFan children and the given depth left.
func (g Gen) Dir(t *rapid.T, label string, depth int) *Node {
	n := &Node{Kind: Dir, Perm: rapid.SampledFrom(dirPerms).Draw(t, label+".perm"), Children: map[string]*Node{}}
	fan := rapid.IntRange(0, g.MaxFan).Draw(t, label+".fan")
	names := g.Names
	if len(names) == 0 {
		names = PlainNames
	}
	if g.Exotic {
		names = append(append([]string{}, names...), ExoticNames...)
	}
	for i := 0; i < fan; i++ {
		name := rapid.SampledFrom(names).Draw(t, label+".name")
		if depth > 0 && rapid.IntRange(0, 9).Draw(t, label+".dir?") < 4 {
			n.Children[name] = g.Dir(t, label+"/"+name, depth-1)
		} else {
			n.Children[name] = g.Leaf(t, label+"/"+name)
		}
	}
	return n
}
