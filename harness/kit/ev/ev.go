// Package ev is the evidence / replay / known-findings side of the harness.
//
// Every check creates one Recorder per sub-check ("part"). The recorder counts
// evaluations, keeps a (capped) set of fingerprints of non-trivial cases, a
// class histogram and a few rendered samples, and writes a part file that the
// driver (/verif/check) merges into /verif/evidence/<ID>.json. A failing case
// is serialised to /verif/replays and announced with a VERIF-VIOLATION line.
package ev

import (
	"encoding/json"
	"flag"
	"fmt"
	"hash/fnv"
	"os"
	"path/filepath"
	"runtime/debug"
	"sort"
	"strconv"
	"strings"
	"sync"
	"testing"
	"time"

	"pgregory.net/rapid"
)

// fingerprintCap bounds the number of distinct fingerprints kept per part and
// process. Beyond the cap further non-trivial cases are still counted in
// nontrivial_evaluations but no longer contribute to distinct_nontrivial, which
// therefore is a conservative (lower-bound) count.
const fingerprintCap = 200000

// Tier returns the tier requested by the driver ("quick" unless VERIF_TIER is
// "thorough").
func Tier() string {
	if os.Getenv("VERIF_TIER") == "thorough" {
		return "thorough"
	}
	return "quick"
}

// Thorough tells whether the thorough tier is requested.
func Thorough() bool { return Tier() == "thorough" }

// Pick returns q in the quick tier and th in the thorough tier.
func Pick(q, th int) int {
	if Thorough() {
		return th
	}
	return q
}

// Seed returns the run's seed (VERIF_SEED, 0 and unset are remapped to 1).
func Seed() uint64 {
	v, err := strconv.ParseInt(os.Getenv("VERIF_SEED"), 10, 64)
	if err != nil || v == 0 {
		return 1
	}
	if v < 0 {
		v = -v
	}
	return uint64(v)
}

// Shard and Shards identify this process among the seed-sharded processes of
// a thorough run (0 of 1 when not sharded).
func Shard() int  { v, _ := strconv.Atoi(os.Getenv("VERIF_SHARD")); return v }
func Shards() int { v, _ := strconv.Atoi(os.Getenv("VERIF_SHARDS")); return max(v, 1) }

// ShardSeed mixes seed and shard so that shards explore different cases.
func ShardSeed() uint64 { return Seed()*1000003 + uint64(Shard())*7919 + 1 }

// ReplayPath is the replay file requested by the driver ("" when not
// replaying).
func ReplayPath() string { return os.Getenv("VERIF_REPLAY") }

func outDir() string {
	if d := os.Getenv("VERIF_OUT"); d != "" {
		return d
	}
	return filepath.Join(os.TempDir(), "verif-out")
}

func replayDir() string {
	if d := os.Getenv("VERIF_REPLAYS"); d != "" {
		return d
	}
	return "/verif/replays"
}

// Recorder collects the evidence of one sub-check.
type Recorder struct {
	mu         sync.Mutex
	prop, part string
	rule       string
	exhaustive bool
	evals      uint64
	ntEvals    uint64
	ntExtra    uint64 // distinct by construction (exhaustive enumerations)
	fps        map[uint64]struct{}
	classes    map[string]uint64
	samples    []any
	maxSamples int
	notes      map[string]any
	failed     bool
	failedAt   time.Time
	closed     bool
}

// New creates a recorder for property prop, sub-check part. rule states how
// cases are generated and what makes one non-trivial.
func New(tb testing.TB, prop, part, rule string) *Recorder {
	r := &Recorder{
		prop: prop, part: part, rule: rule,
		fps:        make(map[uint64]struct{}),
		classes:    make(map[string]uint64),
		notes:      make(map[string]any),
		maxSamples: 4,
	}
	tb.Cleanup(r.Close)
	return r
}

// SetExhaustive marks the part as a complete enumeration of a finite space.
func (r *Recorder) SetExhaustive(bound string) {
	r.mu.Lock()
	r.exhaustive = true
	r.notes["bound"] = bound
	r.mu.Unlock()
}

// Note attaches an extra key to the part's evidence.
func (r *Recorder) Note(key string, v any) {
	r.mu.Lock()
	r.notes[key] = v
	r.mu.Unlock()
}

// Eval counts one executed case.
func (r *Recorder) Eval() {
	r.mu.Lock()
	r.evals++
	r.mu.Unlock()
}

// EvalN counts n executed cases.
func (r *Recorder) EvalN(n uint64) {
	r.mu.Lock()
	r.evals += n
	r.mu.Unlock()
}

// Hash fingerprints a rendered case.
func Hash(parts ...string) uint64 {
	h := fnv.New64a()
	for _, p := range parts {
		h.Write([]byte(p))
		h.Write([]byte{0})
	}
	return h.Sum64()
}

// NonTrivial records a case that is non-trivial by the part's rule; fp
// identifies the case (equal cases must have equal fingerprints).
func (r *Recorder) NonTrivial(fp uint64) {
	r.mu.Lock()
	r.ntEvals++
	if len(r.fps) < fingerprintCap {
		r.fps[fp] = struct{}{}
	}
	r.mu.Unlock()
}

// NonTrivialDistinct records n non-trivial cases that are distinct by
// construction (an enumeration that never repeats a case).
func (r *Recorder) NonTrivialDistinct(n uint64) {
	r.mu.Lock()
	r.ntEvals += n
	r.ntExtra += n
	r.mu.Unlock()
}

// Class increments a class counter (distribution of generated cases).
func (r *Recorder) Class(name string) {
	r.mu.Lock()
	r.classes[name]++
	r.mu.Unlock()
}

// ClassN adds n to a class counter.
func (r *Recorder) ClassN(name string, n uint64) {
	r.mu.Lock()
	r.classes[name] += n
	r.mu.Unlock()
}

// Sample keeps v (JSON-serialisable) as one of a few written-out samples.
func (r *Recorder) Sample(v any) {
	r.mu.Lock()
	if len(r.samples) < r.maxSamples {
		r.samples = append(r.samples, v)
	}
	r.mu.Unlock()
}

// WantSample tells whether another sample would be kept (to avoid rendering).
func (r *Recorder) WantSample() bool {
	r.mu.Lock()
	defer r.mu.Unlock()
	return len(r.samples) < r.maxSamples
}

// Replay is the on-disk form of a failing case.
type Replay struct {
	Property string          `json:"property"`
	Part     string          `json:"part"`
	Message  string          `json:"message"`
	Case     json.RawMessage `json:"case"`
}

// Violation serialises the failing case c to a replay file, prints the marker
// line the driver looks for and returns the path. It does not fail the test:
// callers do that (through rapid's T or testing.T) with the returned message.
// Calling it repeatedly (rapid shrinking) overwrites the same file, so the
// file finally holds the last, i.e. minimal, failing case.
func (r *Recorder) Violation(c any, format string, args ...any) string {
	msg := fmt.Sprintf(format, args...)
	raw, err := json.Marshal(c)
	if err != nil {
		raw, _ = json.Marshal(fmt.Sprintf("%+v", c))
	}
	os.MkdirAll(replayDir(), 0o755)
	path := filepath.Join(replayDir(), fmt.Sprintf("%s-%s.json", r.prop, sanitize(r.part)))
	data, _ := json.MarshalIndent(Replay{Property: r.prop, Part: r.part, Message: msg, Case: raw}, "", " ")
	os.WriteFile(path, data, 0o644)
	r.mu.Lock()
	first := !r.failed
	r.failed = true
	if first {
		r.failedAt = time.Now()
	}
	r.mu.Unlock()
	if first {
		fmt.Printf("VERIF-VIOLATION property=%s part=%s replay=%s\n", r.prop, r.part, path)
	}
	return fmt.Sprintf("%s [replay %s]", msg, path)
}

// Known prints the KNOWN-FINDING line for a listed finding that still
// reproduces.
func (r *Recorder) Known(what string) {
	fmt.Printf("KNOWN-FINDING: property=%s %s\n", r.prop, what)
}

func sanitize(s string) string {
	return strings.Map(func(c rune) rune {
		if c >= 'a' && c <= 'z' || c >= 'A' && c <= 'Z' || c >= '0' && c <= '9' || c == '-' || c == '_' {
			return c
		}
		return '_'
	}, s)
}

// LoadReplay reads the case of a replay file into v and returns the part name.
func LoadReplay(path string, v any) (string, error) {
	data, err := os.ReadFile(path)
	if err != nil {
		return "", err
	}
	var rp Replay
	if err := json.Unmarshal(data, &rp); err != nil {
		return "", err
	}
	return rp.Part, json.Unmarshal(rp.Case, v)
}

// ReplayPart returns the part named in the replay file requested by the
// driver ("" when not replaying).
func ReplayPart() string {
	if ReplayPath() == "" {
		return ""
	}
	data, err := os.ReadFile(ReplayPath())
	if err != nil {
		return ""
	}
	var rp Replay
	json.Unmarshal(data, &rp)
	return rp.Part
}

type partFile struct {
	Property     string            `json:"property"`
	Part         string            `json:"part"`
	Rule         string            `json:"rule"`
	Exhaustive   bool              `json:"exhaustive"`
	Evaluations  uint64            `json:"evaluations"`
	NTEvals      uint64            `json:"nontrivial_evaluations"`
	NTExtra      uint64            `json:"nontrivial_distinct_by_construction"`
	Fingerprints []string          `json:"fingerprints"`
	Classes      map[string]uint64 `json:"classes"`
	Samples      []any             `json:"samples"`
	Notes        map[string]any    `json:"notes"`
	Failed       bool              `json:"failed"`
	Shard        int               `json:"shard"`
}

// Close writes the part file. It is registered as a test cleanup by New.
func (r *Recorder) Close() {
	r.mu.Lock()
	defer r.mu.Unlock()
	if r.closed {
		return
	}
	r.closed = true
	pf := partFile{
		Property: r.prop, Part: r.part, Rule: r.rule, Exhaustive: r.exhaustive,
		Evaluations: r.evals, NTEvals: r.ntEvals, NTExtra: r.ntExtra,
		Classes: r.classes, Samples: r.samples, Notes: r.notes, Failed: r.failed,
		Shard: Shard(),
	}
	pf.Fingerprints = make([]string, 0, len(r.fps))
	for fp := range r.fps {
		pf.Fingerprints = append(pf.Fingerprints, strconv.FormatUint(fp, 36))
	}
	sort.Strings(pf.Fingerprints)
	dir := filepath.Join(outDir(), "parts")
	os.MkdirAll(dir, 0o755)
	data, err := json.Marshal(pf)
	if err != nil {
		// Samples must never make the evidence unwritable.
		pf.Samples = []any{fmt.Sprintf("%+v", r.samples)}
		data, _ = json.Marshal(pf)
	}
	name := fmt.Sprintf("%s.%s.%d.json", r.prop, sanitize(r.part), Shard())
	os.WriteFile(filepath.Join(dir, name), data, 0o644)
}

// rapidSetup points rapid at the run's seed and case budget. rapid only
// exposes these as flags; tests within a package run sequentially, so setting
// them right before each Check is safe.
func rapidSetup(checks int, salt uint64) {
	os.RemoveAll("testdata/rapid")
	flag.Set("rapid.checks", strconv.Itoa(checks))
	seed := ShardSeed() + salt*104729
	if seed == 0 {
		seed = 1
	}
	flag.Set("rapid.seed", strconv.FormatUint(seed, 10))
	flag.Set("rapid.nofailfile", "true")
	if Thorough() {
		flag.Set("rapid.shrinktime", "60s")
	} else {
		flag.Set("rapid.shrinktime", "20s")
	}
}

// Check runs prop under rapid with quick/thorough case budgets. prop reports a
// failure by returning a non-nil case description produced with Fail (below)
// or by calling t.Fatalf after rec.Violation. Panics in prop are turned into
// violations with the drawn case attached when available.
func Check(t *testing.T, rec *Recorder, quick, thorough int, prop func(t *rapid.T)) {
	t.Helper()
	rapidSetup(Pick(quick, thorough), Hash(rec.prop, rec.part)%1000)
	// rapid's shrink time limit is only consulted between passes; a property
	// that takes seconds per execution could shrink for hours. Past the
	// budget every further execution is skipped, which ends the shrinking
	// (the violation marker and the replay file are already written).
	budget := 45 * time.Second
	if Thorough() {
		budget = 150 * time.Second
	}
	rapid.Check(t, func(rt *rapid.T) {
		rec.mu.Lock()
		exhausted := rec.failed && time.Since(rec.failedAt) > budget
		rec.mu.Unlock()
		if exhausted {
			rt.Skip("shrink budget exhausted")
		}
		defer func() {
			if p := recover(); p != nil {
				if isRapidControl(p) {
					panic(p)
				}
				msg := rec.Violation(fmt.Sprintf("panic: %v", p), "panic in property: %v\n%s", p, debug.Stack())
				rt.Fatalf("%s", msg)
			}
		}()
		prop(rt)
	})
}

// isRapidControl recognises the panics rapid itself uses for control flow
// (failed assertions, invalid data / Skip), which must propagate unchanged.
func isRapidControl(p any) bool {
	s := fmt.Sprintf("%T", p)
	return strings.HasPrefix(s, "rapid.") || strings.HasPrefix(s, "*rapid.")
}

// Failf records a violation for case c and fails the rapid case.
func Failf(rt *rapid.T, rec *Recorder, c any, format string, args ...any) {
	rt.Helper()
	rt.Fatalf("%s", rec.Violation(c, format, args...))
}

// FailTB records a violation for case c and fails a plain test.
func FailTB(tb testing.TB, rec *Recorder, c any, format string, args ...any) {
	tb.Helper()
	tb.Fatalf("%s", rec.Violation(c, format, args...))
}

// Finding is one entry of /verif/known_findings.json (committed; never
// written at run time).
type Finding struct {
	Property string         `json:"property"`
	ID       string         `json:"id"`
	Status   string         `json:"status"` // "known" or "fixed"
	Commit   string         `json:"commit,omitempty"`
	Class    string         `json:"class"`
	Params   map[string]any `json:"params,omitempty"`
	What     string         `json:"what"`
}

// Findings returns the entries recorded for a property. Only entries with
// status "known" may be used to exclude cases; "fixed" entries suppress
// nothing.
func Findings(prop string) []Finding {
	path := os.Getenv("VERIF_KNOWN")
	if path == "" {
		path = "/verif/known_findings.json"
	}
	data, err := os.ReadFile(path)
	if err != nil {
		return nil
	}
	var file struct {
		Findings []Finding `json:"findings"`
	}
	if json.Unmarshal(data, &file) != nil {
		return nil
	}
	var out []Finding
	for _, f := range file.Findings {
		if f.Property == prop {
			out = append(out, f)
		}
	}
	return out
}

// KnownClass tells whether a finding of the given class is listed as "known"
// (still open) for the property.
func KnownClass(prop, class string) (Finding, bool) {
	for _, f := range Findings(prop) {
		if f.Class == class && f.Status == "known" {
			return f, true
		}
	}
	return Finding{}, false
}

// Excluded counts a generated case that was skipped because it belongs to a
// known finding's class.
func (r *Recorder) Excluded(class string) { r.Class("excluded-known/" + class) }

// ReportKnown prints the KNOWN-FINDING line for a listed finding whose
// canonical instance was just re-executed and still fails.
func (r *Recorder) ReportKnown(f Finding) {
	fmt.Printf("KNOWN-FINDING: property=%s %s: %s\n", r.prop, f.ID, f.What)
}

// Inconclusive prints a marker that makes the driver exit 2 (no verdict), for
// timing-dependent checks that could not reach a stable verdict.
func Inconclusive(format string, args ...any) {
	fmt.Printf("VERIF-INCONCLUSIVE %s\n", fmt.Sprintf(format, args...))
}
