package ev
import ("testing"; "pgregory.net/rapid"; "github.com/mutagen-io/mutagen/pkg/synchronization/core")
func TestX(t *testing.T){ rapid.Check(t, func(t *rapid.T){ n:=rapid.IntRange(0,5).Draw(t,"n"); _ = n; var e *core.Entry; if e.Count()!=0 {t.Fatal("x")} }) }
