// Package fault is the client side of the verif fault hooks in
// pkg/filesystem: fail / cancel at the k-th filesystem operation.
package fault

import (
	"strings"
	"sync"
	"syscall"

	"github.com/mutagen-io/mutagen/pkg/filesystem"
)

// Injector decides, per hooked filesystem operation, whether it fails.
// Faults are fail-before-effect: the operation is not performed.
type Injector struct {
	mu sync.Mutex
	// FailAt is the 1-based index of the call that fails with Errno (0: none).
	FailAt int
	Errno  syscall.Errno
	// Persistent makes every call from FailAt on fail.
	Persistent bool
	// ExdevFirstRename makes the first rename (renameat2 / renameat) fail
	// with EXDEV, as a rename across filesystems would.
	ExdevFirstRename bool
	// CancelAt calls Cancel when call number CancelAt is reached (the call
	// itself proceeds).
	CancelAt int
	Cancel   func()
	// OnlyOps restricts counting to the listed operations (nil: all).
	OnlyOps map[string]bool

	// Calls counts hooked operations seen; Log lists them.
	Calls    int
	Log      []string
	Hit      bool
	HitOp    string
	HitPath  string
	// Failed lists the operations that were made to fail.
	Failed []string
	exdevHit bool
}

func (i *Injector) hook(op, path string) error {
	i.mu.Lock()
	defer i.mu.Unlock()
	if i.OnlyOps != nil && !i.OnlyOps[op] {
		return nil
	}
	i.Calls++
	i.Log = append(i.Log, op+" "+path)
	if i.CancelAt != 0 && i.Calls == i.CancelAt && i.Cancel != nil {
		i.Hit, i.HitOp, i.HitPath = true, "cancel@"+op, path
		i.Cancel()
		return nil
	}
	if i.FailAt != 0 && (i.Calls == i.FailAt || (i.Persistent && i.Calls > i.FailAt)) {
		if !i.Hit {
			i.Hit, i.HitOp, i.HitPath = true, op, path
		}
		i.Failed = append(i.Failed, op)
		return i.Errno
	}
	if i.ExdevFirstRename && !i.exdevHit && strings.HasPrefix(op, "renameat") {
		i.exdevHit = true
		return syscall.EXDEV
	}
	return nil
}

// Install activates the injector (process-wide).
func (i *Injector) Install() { filesystem.VerifSetInjector(i.hook) }

// Remove deactivates any injector.
func Remove() { filesystem.VerifSetInjector(nil) }

// Errnos are the environmental errors injected: values a system call may
// return regardless of filesystem state.
var Errnos = []syscall.Errno{syscall.EIO, syscall.EACCES, syscall.ENOSPC, syscall.EPERM, syscall.EMFILE, syscall.EROFS}
