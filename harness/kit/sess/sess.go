// Package sess drives real synchronization sessions in-process: a
// synchronization.Manager with its own data directory, sessions between two
// local roots, deterministic cycles through waiting flushes, and a journaling
// wrapper around the local endpoint so that checks can judge the recorded
// history of endpoint calls.
package sess

import (
	"context"
	"errors"
	"fmt"
	"io"
	"net"
	"os"
	"path/filepath"
	"strings"
	"sync"
	"sync/atomic"
	"syscall"
	"time"

	"github.com/mutagen-io/mutagen/pkg/logging"
	"github.com/mutagen-io/mutagen/pkg/selection"
	"github.com/mutagen-io/mutagen/pkg/synchronization"
	"github.com/mutagen-io/mutagen/pkg/synchronization/core"
	"github.com/mutagen-io/mutagen/pkg/synchronization/endpoint/remote"
	"github.com/mutagen-io/mutagen/pkg/synchronization/rsync"
	urlpkg "github.com/mutagen-io/mutagen/pkg/url"

	// Registers the real local protocol handler.
	_ "github.com/mutagen-io/mutagen/pkg/synchronization/protocols/local"
)

// Event is one journal record.
type Event struct {
	Seq     int64  `json:"seq"`
	Session string `json:"session"`
	Alpha   bool   `json:"alpha"`
	Call    string `json:"call"`  // connect, poll, scan, stage, supply, transition, shutdown, or a test-inserted marker
	Phase   string `json:"phase"` // begin, end, mark
	Err     string `json:"err,omitempty"`
	Note    string `json:"note,omitempty"`
}

// Journal records endpoint calls with a global sequence.
type Journal struct {
	mu     sync.Mutex
	seq    int64
	events []Event
}

// Add appends an event and returns its sequence number.
func (j *Journal) Add(e Event) int64 {
	j.mu.Lock()
	defer j.mu.Unlock()
	j.seq++
	e.Seq = j.seq
	j.events = append(j.events, e)
	return e.Seq
}

// Mark inserts a test-side marker (e.g. "pause returned").
func (j *Journal) Mark(session, what string) int64 {
	return j.Add(Event{Session: session, Call: what, Phase: "mark"})
}

// Events returns a copy of the journal.
func (j *Journal) Events() []Event {
	j.mu.Lock()
	defer j.mu.Unlock()
	return append([]Event(nil), j.events...)
}

// Hooks let scripted scenarios replace endpoint behaviour. Each hook, if
// non-nil, is consulted by the journaling endpoint before delegating.
type Hooks struct {
	// Scan, if it returns handled=true, replaces the endpoint's scan.
	Scan func(session string, alpha bool, ancestor *core.Entry, full bool) (handled bool, snap *core.Snapshot, err error, tryAgain bool)
	// Transition likewise.
	Transition func(session string, alpha bool, transitions []*core.Change) (handled bool, results []*core.Entry, problems []*core.Problem, missing bool, err error)
	// OnTransition, if non-nil, is called with the context the controller
	// passes to Transition, before Transition is consulted.
	OnTransition func(ctx context.Context, session string, alpha bool)
	// Remote, if it returns true for an endpoint being connected, makes that
	// endpoint a remote one: remote.NewEndpoint talking to remote.ServeEndpoint
	// (same process, same root) over a kernel socket pair, i.e. everything
	// goes through the agent protocol.
	Remote func(session string, alpha bool) bool
	// OnStage, if non-nil, is called right before an endpoint's Stage call is
	// forwarded.
	OnStage func(session string, alpha bool)
	// Stage / Supply are skipped (reported as fully pre-staged) when
	// Transition is scripted and this is true.
	SkipStaging bool
}

var (
	installOnce   sync.Once
	activeJournal atomic.Pointer[Journal]
	activeHooks   atomic.Pointer[Hooks]
)

type journalingHandler struct {
	real synchronization.ProtocolHandler
}

func (h *journalingHandler) Connect(ctx context.Context, logger *logging.Logger, url *urlpkg.URL, prompter, session string, version synchronization.Version, configuration *synchronization.Configuration, alpha bool) (synchronization.Endpoint, error) {
	j := activeJournal.Load()
	if j != nil {
		j.Add(Event{Session: session, Alpha: alpha, Call: "connect", Phase: "begin"})
	}
	var ep synchronization.Endpoint
	var err error
	if hk := activeHooks.Load(); hk != nil && hk.Remote != nil && hk.Remote(session, alpha) {
		ep, err = connectRemote(logger, url.Path, session, version, configuration, alpha)
	} else {
		ep, err = h.real.Connect(ctx, logger, url, prompter, session, version, configuration, alpha)
	}
	if j != nil {
		j.Add(Event{Session: session, Alpha: alpha, Call: "connect", Phase: "end", Err: errString(err)})
	}
	if err != nil {
		return nil, err
	}
	return &journalingEndpoint{Endpoint: ep, session: session, alpha: alpha}, nil
}

// connectRemote serves the root through the agent protocol inside this
// process and returns the client endpoint.
func connectRemote(logger *logging.Logger, root, session string, version synchronization.Version, configuration *synchronization.Configuration, alpha bool) (synchronization.Endpoint, error) {
	fds, err := syscall.Socketpair(syscall.AF_UNIX, syscall.SOCK_STREAM, 0)
	if err != nil {
		return nil, err
	}
	var conns [2]net.Conn
	for i, fd := range fds {
		file := os.NewFile(uintptr(fd), fmt.Sprintf("socketpair-%d", i))
		conn, err := net.FileConn(file)
		file.Close()
		if err != nil {
			return nil, err
		}
		conns[i] = conn
	}
	go remote.ServeEndpoint(logger, conns[1])
	return remote.NewEndpoint(logger, conns[0], root, session, version, configuration, alpha)
}

func errString(err error) string {
	if err == nil {
		return ""
	}
	return err.Error()
}

type journalingEndpoint struct {
	synchronization.Endpoint
	session string
	alpha   bool
}

func (e *journalingEndpoint) log(call, phase string, err error, note string) {
	if j := activeJournal.Load(); j != nil {
		j.Add(Event{Session: e.session, Alpha: e.alpha, Call: call, Phase: phase, Err: errString(err), Note: note})
	}
}

func (e *journalingEndpoint) Poll(ctx context.Context) error {
	e.log("poll", "begin", nil, "")
	err := e.Endpoint.Poll(ctx)
	e.log("poll", "end", err, "")
	return err
}

func (e *journalingEndpoint) Scan(ctx context.Context, ancestor *core.Entry, full bool) (*core.Snapshot, error, bool) {
	e.log("scan", "begin", nil, fmt.Sprint("full=", full))
	if h := activeHooks.Load(); h != nil && h.Scan != nil {
		if handled, snap, err, again := h.Scan(e.session, e.alpha, ancestor, full); handled {
			e.log("scan", "end", err, "scripted")
			return snap, err, again
		}
	}
	s, err, again := e.Endpoint.Scan(ctx, ancestor, full)
	e.log("scan", "end", err, "")
	return s, err, again
}

func (e *journalingEndpoint) Stage(paths []string, digests [][]byte) ([]string, []*rsync.Signature, rsync.Receiver, error) {
	e.log("stage", "begin", nil, fmt.Sprint(len(paths)))
	if h := activeHooks.Load(); h != nil && h.SkipStaging {
		e.log("stage", "end", nil, "scripted")
		return nil, nil, nil, nil
	}
	if h := activeHooks.Load(); h != nil && h.OnStage != nil {
		h.OnStage(e.session, e.alpha)
	}
	a, b, c, err := e.Endpoint.Stage(paths, digests)
	e.log("stage", "end", err, "")
	return a, b, c, err
}

func (e *journalingEndpoint) Supply(paths []string, signatures []*rsync.Signature, receiver rsync.Receiver) error {
	e.log("supply", "begin", nil, fmt.Sprint(len(paths)))
	err := e.Endpoint.Supply(paths, signatures, receiver)
	e.log("supply", "end", err, "")
	return err
}

func (e *journalingEndpoint) Transition(ctx context.Context, transitions []*core.Change) ([]*core.Entry, []*core.Problem, bool, error) {
	e.log("transition", "begin", nil, fmt.Sprint(len(transitions)))
	if h := activeHooks.Load(); h != nil && h.OnTransition != nil {
		h.OnTransition(ctx, e.session, e.alpha)
	}
	if h := activeHooks.Load(); h != nil && h.Transition != nil {
		if handled, r, p, m, err := h.Transition(e.session, e.alpha, transitions); handled {
			e.log("transition", "end", err, "scripted")
			return r, p, m, err
		}
	}
	r, p, m, err := e.Endpoint.Transition(ctx, transitions)
	e.log("transition", "end", err, "")
	return r, p, m, err
}

func (e *journalingEndpoint) Shutdown() error {
	e.log("shutdown", "begin", nil, "")
	err := e.Endpoint.Shutdown()
	e.log("shutdown", "end", err, "")
	return err
}

// Install wraps the registered local protocol handler (once per process) and
// makes j / h the active journal and hooks (either may be nil).
func Install(j *Journal, h *Hooks) {
	installOnce.Do(func() {
		real := synchronization.ProtocolHandlers[urlpkg.Protocol_Local]
		synchronization.ProtocolHandlers[urlpkg.Protocol_Local] = &journalingHandler{real: real}
	})
	activeJournal.Store(j)
	activeHooks.Store(h)
}

// Env is a manager with its own data directory.
type Env struct {
	DataDir string
	Manager *synchronization.Manager
	Log     io.Writer
}

// NewEnv points MUTAGEN_DATA_DIRECTORY (process-wide) at dataDir and creates
// a manager there (loading whatever sessions the directory already holds).
func NewEnv(dataDir string) (*Env, error) {
	if err := os.MkdirAll(dataDir, 0o700); err != nil {
		return nil, err
	}
	os.Setenv("MUTAGEN_DATA_DIRECTORY", dataDir)
	var w io.Writer = io.Discard
	level := logging.LevelDisabled
	if os.Getenv("VERIF_SESSION_LOG") != "" {
		w, level = os.Stderr, logging.LevelTrace
	}
	m, err := synchronization.NewManager(logging.NewLogger(level, w))
	if err != nil {
		return nil, err
	}
	return &Env{DataDir: dataDir, Manager: m}, nil
}

// Restart shuts the manager down and creates a new one on the same directory.
func (e *Env) Restart() error {
	e.Manager.Shutdown()
	n, err := NewEnv(e.DataDir)
	if err != nil {
		return err
	}
	e.Manager = n.Manager
	return nil
}

// Close shuts the manager down.
func (e *Env) Close() { e.Manager.Shutdown() }

func sel(id string) *selection.Selection {
	return &selection.Selection{Specifications: []string{id}}
}

// ManualConfig returns a configuration for fully manual sessions: no
// watching, cycles happen only on flush.
func ManualConfig(mode core.SynchronizationMode) *synchronization.Configuration {
	return &synchronization.Configuration{
		SynchronizationMode: mode,
		WatchMode:           synchronization.WatchMode_WatchModeNoWatch,
	}
}

// Create creates a session between two local roots.
func (e *Env) Create(alphaRoot, betaRoot string, cfg, cfgAlpha, cfgBeta *synchronization.Configuration, name string, labels map[string]string, paused bool) (string, error) {
	if cfgAlpha == nil {
		cfgAlpha = &synchronization.Configuration{}
	}
	if cfgBeta == nil {
		cfgBeta = &synchronization.Configuration{}
	}
	a := &urlpkg.URL{Kind: urlpkg.Kind_Synchronization, Protocol: urlpkg.Protocol_Local, Path: alphaRoot}
	b := &urlpkg.URL{Kind: urlpkg.Kind_Synchronization, Protocol: urlpkg.Protocol_Local, Path: betaRoot}
	return e.Manager.Create(context.Background(), a, b, cfg, cfgAlpha, cfgBeta, name, labels, paused, "")
}

// ErrNotReady is returned by Flush when the session never became able to
// synchronize within the wait budget.
var ErrNotReady = errors.New("session not able to synchronize")

// Flush runs one waiting flush. A session that has just been created or
// resumed may not have entered its synchronization loop yet; such "not
// currently able to synchronize" answers are retried for up to ready.
func (e *Env) Flush(id string, ready time.Duration) error {
	deadline := time.Now().Add(ready)
	for {
		ctx, cancel := context.WithTimeout(context.Background(), 60*time.Second)
		err := e.Manager.Flush(ctx, sel(id), "", false)
		cancel()
		if err == nil {
			return nil
		}
		if !strings.Contains(err.Error(), "not currently able to synchronize") || time.Now().After(deadline) {
			return err
		}
		// A session halted for safety never becomes able to synchronize by
		// itself: do not wait for it.
		if st := e.State(id); st != nil && Halted(st.Status) {
			return err
		}
		time.Sleep(2 * time.Millisecond)
	}
}

// Halted tells whether a status is one of the halted-for-safety statuses.
func Halted(s synchronization.Status) bool {
	return s == synchronization.Status_HaltedOnRootEmptied || s == synchronization.Status_HaltedOnRootDeletion || s == synchronization.Status_HaltedOnRootTypeChange
}

// FlushNoWait issues a flush that does not wait for the cycle.
func (e *Env) FlushNoWait(id string) error {
	return e.Manager.Flush(context.Background(), sel(id), "", true)
}

func (e *Env) Pause(id string) error  { return e.Manager.Pause(context.Background(), sel(id), "") }
func (e *Env) Resume(id string) error { return e.Manager.Resume(context.Background(), sel(id), "") }
func (e *Env) Reset(id string) error  { return e.Manager.Reset(context.Background(), sel(id), "") }
func (e *Env) Terminate(id string) error {
	return e.Manager.Terminate(context.Background(), sel(id), "")
}

// State returns the current state of one session (nil if it is not listed).
func (e *Env) State(id string) *synchronization.State {
	_, states, err := e.Manager.List(context.Background(), sel(id), 0)
	if err != nil || len(states) != 1 {
		return nil
	}
	return states[0]
}

// List returns all session states.
func (e *Env) List() []*synchronization.State {
	_, states, _ := e.Manager.List(context.Background(), &selection.Selection{All: true}, 0)
	return states
}

// ArchivePath returns the path of the session's archive file.
func (e *Env) ArchivePath(id string) string {
	return filepath.Join(e.DataDir, "archives", id)
}

// SessionPath returns the path of the session's session file.
func (e *Env) SessionPath(id string) string {
	return filepath.Join(e.DataDir, "sessions", id)
}
