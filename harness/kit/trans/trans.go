// Package trans holds what the transition checks (C08, C09, C17) share: a
// scanned root on disk, a generator of plans over it, a map-backed staging
// provider and the call into core.Transition.
package trans

import (
	"context"
	"crypto/sha1"
	"fmt"
	"os"
	"path/filepath"
	"sort"

	"pgregory.net/rapid"

	"github.com/mutagen-io/mutagen/pkg/filesystem"
	"github.com/mutagen-io/mutagen/pkg/filesystem/behavior"
	"github.com/mutagen-io/mutagen/pkg/synchronization/core"
	mutagenignore "github.com/mutagen-io/mutagen/pkg/synchronization/core/ignore/mutagen"

	"verif/kit/disk"
	"verif/kit/tree"
)

// PlanItem is one planned transition in replayable form. Old is always taken
// from the scan; only New is stored.
type PlanItem struct {
	Path string  `json:"path"`
	New  *tree.J `json:"new"`
}

// Config is the transition configuration of a case.
type Config struct {
	FileMode  uint32 `json:"file_mode"`
	DirMode   uint32 `json:"dir_mode"`
	Ownership bool   `json:"ownership"` // set owner/group to id:0 (the test runs as root)
	StageOnShm bool  `json:"stage_on_shm"`
}

// Provider is a map-backed staging provider: it serves the files Stage put
// into its directory, keyed by digest.
type Provider struct {
	Dir     string
	byHash  map[string][]string
	Missing map[string]bool // digests deliberately not staged
}

// Provide implements core.Provider.
func (p *Provider) Provide(path string, digest []byte) (string, error) {
	k := string(digest)
	if files := p.byHash[k]; len(files) > 0 {
		f := files[0]
		p.byHash[k] = files[1:]
		return f, nil
	}
	return filepath.Join(p.Dir, "missing-"+fmt.Sprintf("%x", digest)), nil
}

// ContentFor maps a symbolic content id to the bytes staged for it.
func ContentFor(id byte) []byte { return disk.Content(id, 10+int(id)*3) }

// DigestFor is the sha1 digest of ContentFor(id).
func DigestFor(id byte) []byte {
	s := sha1.Sum(ContentFor(id))
	return s[:]
}

var idByDigest = func() map[string]byte {
	m := map[string]byte{}
	for id := byte(100); id < 110; id++ {
		m[string(DigestFor(id))] = id
	}
	return m
}()

// Stage writes one staged file per file entry of every New tree (except those
// whose digest is listed missing).
func (p *Provider) Stage(plan []*core.Change) error {
	p.byHash = map[string][]string{}
	n := 0
	var stage func(e *core.Entry) error
	stage = func(e *core.Entry) error {
		if e == nil {
			return nil
		}
		if e.Kind == tree.KFile {
			id, ok := idByDigest[string(e.Digest)]
			if !ok || p.Missing[string(e.Digest)] {
				return nil
			}
			n++
			f := filepath.Join(p.Dir, fmt.Sprintf("staged-%d", n))
			if err := os.WriteFile(f, ContentFor(id), 0o600); err != nil {
				return err
			}
			p.byHash[string(e.Digest)] = append(p.byHash[string(e.Digest)], f)
		}
		for _, name := range tree.Names(e) {
			if err := stage(e.Contents[name]); err != nil {
				return err
			}
		}
		return nil
	}
	for _, c := range plan {
		if err := stage(c.New); err != nil {
			return err
		}
	}
	return nil
}

// World is a scanned root.
type World struct {
	Dir      string // case directory (parent of root and staging)
	Root     string
	Snapshot *core.Snapshot
	Cache    *core.Cache
}

// Scan performs a cold scan of the root with the default configuration of the
// transition checks (portable links, portable permissions, sha1, no ignores).
func Scan(root string) (*core.Snapshot, *core.Cache, error) {
	ign, _ := mutagenignore.NewIgnorer(nil)
	s, c, _, err := core.Scan(context.Background(), root, nil, nil, sha1.New(), nil, ign, nil,
		behavior.ProbeMode_ProbeModeProbe, core.SymbolicLinkMode_SymbolicLinkModePortable, core.PermissionsMode_PermissionsModePortable)
	return s, c, err
}

// NewWorld builds the tree under dir/root and scans it.
func NewWorld(dir string, root *disk.Node) (*World, error) {
	w := &World{Dir: dir, Root: filepath.Join(dir, "root")}
	if err := disk.Build(w.Root, root); err != nil {
		return nil, err
	}
	var err error
	w.Snapshot, w.Cache, err = Scan(w.Root)
	return w, err
}

// Changes turns plan items into changes with Old taken from the snapshot.
func (w *World) Changes(items []*PlanItem) []*core.Change {
	var out []*core.Change
	for _, it := range items {
		out = append(out, &core.Change{Path: it.Path, Old: tree.At(w.Snapshot.Content, it.Path), New: tree.FromJ(it.New)})
	}
	return out
}

// StagingDir returns (and creates) the staging directory of the case.
func (w *World) StagingDir(cfg Config) (string, bool) {
	if cfg.StageOnShm {
		if d, err := os.MkdirTemp("/dev/shm", "verif-stage-"); err == nil {
			return d, true
		}
	}
	d := filepath.Join(w.Dir, "staging")
	os.MkdirAll(d, 0o700)
	return d, false
}

// Transition runs core.Transition with the case configuration.
func (w *World) Transition(ctx context.Context, plan []*core.Change, cfg Config, provider core.Provider) ([]*core.Entry, []*core.Problem, bool) {
	var own *filesystem.OwnershipSpecification
	if cfg.Ownership {
		own, _ = filesystem.NewOwnershipSpecification("id:0", "id:0")
	}
	return core.Transition(ctx, w.Root, plan, w.Cache, core.SymbolicLinkMode_SymbolicLinkModePortable,
		filesystem.Mode(cfg.FileMode), filesystem.Mode(cfg.DirMode), own, false, provider)
}

// GenEntry draws a synchronizable entry to create: file (one of the staged
// contents), link, or a small directory.
func GenEntry(t *rapid.T, label string, depth int) *core.Entry {
	switch k := rapid.IntRange(0, 9).Draw(t, label+".kind"); {
	case k < 5:
		return &core.Entry{Kind: tree.KFile, Digest: DigestFor(byte(100 + rapid.IntRange(0, 9).Draw(t, label+".content"))), Executable: rapid.IntRange(0, 3).Draw(t, label+".exec") == 0}
	case k < 7:
		return tree.L(rapid.SampledFrom([]string{"a", "b/c", "nowhere"}).Draw(t, label+".target"))
	default:
		if depth <= 0 {
			return tree.D(nil)
		}
		contents := map[string]*core.Entry{}
		for i := rapid.IntRange(0, 3).Draw(t, label+".fan"); i > 0; i-- {
			contents[rapid.SampledFrom([]string{"n1", "n2", "n3", "n4"}).Draw(t, label+".name")] = GenEntry(t, label+".child", depth-1)
		}
		return tree.D(contents)
	}
}

// GenNested draws a directory that certainly holds content two and three
// levels down (a failure inside a sub-directory that was itself created).
func GenNested(t *rapid.T, label string) *core.Entry {
	leaf := func(l string) *core.Entry { return GenEntry(t, label+"."+l, 0) }
	file := func(l string) *core.Entry {
		return &core.Entry{Kind: tree.KFile, Digest: DigestFor(byte(100 + rapid.IntRange(0, 9).Draw(t, label+"."+l+".content")))}
	}
	inner := tree.D(map[string]*core.Entry{"n1": file("inner.n1")})
	if rapid.Bool().Draw(t, label+".inner.more") {
		inner.Contents["n2"] = leaf("inner.n2")
	}
	sub := tree.D(map[string]*core.Entry{"n2": file("sub.n2")})
	switch rapid.IntRange(0, 2).Draw(t, label+".sub.shape") {
	case 0:
		sub.Contents["n3"] = inner
	case 1:
		sub.Contents["n1"] = leaf("sub.n1")
	}
	top := tree.D(map[string]*core.Entry{"n1": sub})
	if rapid.Bool().Draw(t, label+".top.more") {
		top.Contents["n4"] = leaf("top.n4")
	}
	return top
}

// GenPlan draws 1-4 non-nested transitions over the snapshot: deletions,
// replacements (any kind to any kind), file swaps (new content, or same
// content with the executable bit toggled) and creations at new paths.
func GenPlan(t *rapid.T, snapshot *core.Entry) []*PlanItem {
	var existing, dirs []string
	for _, pe := range tree.Walk(snapshot) {
		// Only fully synchronizable sub-trees can be the Old of a change.
		if pe.Path != "" && !tree.HasUnsync(pe.Entry) {
			existing = append(existing, pe.Path)
		}
		if pe.Entry.Kind == tree.KDir {
			dirs = append(dirs, pe.Path)
		}
	}
	sort.Strings(existing)
	sort.Strings(dirs)
	var items []*PlanItem
	n := rapid.IntRange(1, 4).Draw(t, "plan.len")
	for i := 0; i < n; i++ {
		var it *PlanItem
		op := rapid.IntRange(0, 9).Draw(t, "plan.op")
		if len(existing) == 0 || op >= 7 {
			if len(dirs) == 0 {
				continue
			}
			d := rapid.SampledFrom(dirs).Draw(t, "plan.create.dir")
			p := tree.Join(d, rapid.SampledFrom([]string{"new1", "new2", "new3"}).Draw(t, "plan.create.name"))
			if tree.At(snapshot, p) != nil {
				continue
			}
			nw := GenEntry(t, "plan.create", 2)
			if rapid.IntRange(0, 3).Draw(t, "plan.create.nested") == 0 {
				nw = GenNested(t, "plan.create.nested")
			}
			it = &PlanItem{Path: p, New: tree.ToJ(nw)}
		} else {
			p := rapid.SampledFrom(existing).Draw(t, "plan.path")
			old := tree.At(snapshot, p)
			switch {
			case op < 3:
				it = &PlanItem{Path: p}
			case op < 5 && old.Kind == tree.KFile:
				nw := &core.Entry{Kind: tree.KFile, Digest: old.Digest, Executable: !old.Executable}
				if rapid.Bool().Draw(t, "plan.swap.content") {
					nw = &core.Entry{Kind: tree.KFile, Digest: DigestFor(byte(100 + rapid.IntRange(0, 9).Draw(t, "plan.swap.id"))), Executable: rapid.Bool().Draw(t, "plan.swap.exec")}
				}
				it = &PlanItem{Path: p, New: tree.ToJ(nw)}
			default:
				nw := GenEntry(t, "plan.replace", 2)
				if nw.Kind == tree.KDir && old.Kind == tree.KDir {
					// Reconciliation never plans directory -> directory.
					it = &PlanItem{Path: p}
				} else {
					it = &PlanItem{Path: p, New: tree.ToJ(nw)}
				}
			}
		}
		nested := false
		for _, o := range items {
			if tree.IsPrefix(o.Path, it.Path) || tree.IsPrefix(it.Path, o.Path) {
				nested = true
			}
		}
		if !nested {
			items = append(items, it)
		}
	}
	return items
}
