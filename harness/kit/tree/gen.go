package tree

import (
	"encoding/hex"

	"pgregory.net/rapid"

	"github.com/mutagen-io/mutagen/pkg/synchronization/core"
)

// J is the JSON form of a tree used in replay files.
type J struct {
	K string        `json:"k"`
	X bool          `json:"x,omitempty"`
	D string        `json:"d,omitempty"`
	T string        `json:"t,omitempty"`
	P string        `json:"p,omitempty"`
	C map[string]*J `json:"c,omitempty"`
}

var kindNames = map[core.EntryKind]string{KDir: "D", KFile: "F", KLink: "L", KUntr: "U", KProb: "P", KPhantom: "PD"}

// ToJ converts a tree to its JSON form.
func ToJ(e *core.Entry) *J {
	if e == nil {
		return nil
	}
	j := &J{K: kindNames[e.Kind], X: e.Executable, T: e.Target, P: e.Problem}
	if e.Digest != nil {
		j.D = hex.EncodeToString(e.Digest)
	}
	if len(e.Contents) > 0 {
		j.C = make(map[string]*J, len(e.Contents))
		for n, c := range e.Contents {
			j.C[n] = ToJ(c)
		}
	}
	return j
}

// FromJ converts the JSON form back to a tree.
func FromJ(j *J) *core.Entry {
	if j == nil {
		return nil
	}
	e := &core.Entry{Executable: j.X, Target: j.T, Problem: j.P}
	for k, n := range kindNames {
		if n == j.K {
			e.Kind = k
		}
	}
	if j.D != "" {
		e.Digest, _ = hex.DecodeString(j.D)
	}
	if len(j.C) > 0 {
		e.Contents = make(map[string]*core.Entry, len(j.C))
		for n, c := range j.C {
			e.Contents[n] = FromJ(c)
		}
	}
	return e
}

// Shape bounds an exhaustive enumeration of trees.
type Shape struct {
	// Names are the child names a directory may use.
	Names []string
	// Leaves are the non-directory entries allowed at this level.
	Leaves []*core.Entry
	// Sub is the shape of child directories' contents (nil: child directories
	// are not generated; a Sub with no Names and no Leaves yields only empty
	// directories).
	Sub *Shape
	// Phantom additionally generates phantom-directory variants of every
	// directory below the root.
	Phantom bool
}

// Enumerate lists every tree of the shape: nil, every leaf, and every
// directory whose children are drawn (independently, or absent) from the
// leaves and the sub-shape's directories. Root-level leaves can be restricted
// with rootLeaves (nil: same as Leaves).
func (s *Shape) Enumerate(includeNil bool) []*core.Entry {
	var out []*core.Entry
	if includeNil {
		out = append(out, nil)
	}
	out = append(out, s.Leaves...)
	out = append(out, s.dirs(false)...)
	return out
}

// dirs lists every directory of the shape.
func (s *Shape) dirs(phantomToo bool) []*core.Entry {
	// Child options: absent, leaves, sub-directories.
	options := []*core.Entry{nil}
	options = append(options, s.Leaves...)
	if s.Sub != nil {
		options = append(options, s.Sub.dirs(s.Phantom)...)
	}
	var out []*core.Entry
	idx := make([]int, len(s.Names))
	for {
		contents := map[string]*core.Entry{}
		for i, n := range s.Names {
			if o := options[idx[i]]; o != nil {
				contents[n] = o
			}
		}
		out = append(out, D(contents))
		if phantomToo {
			out = append(out, PD(contents))
		}
		// Next combination.
		i := 0
		for ; i < len(idx); i++ {
			idx[i]++
			if idx[i] < len(options) {
				break
			}
			idx[i] = 0
		}
		if i == len(idx) {
			break
		}
	}
	return out
}

// SyncOnly returns the trees of ts that contain no unsynchronizable entry.
func SyncOnly(ts []*core.Entry) []*core.Entry {
	var out []*core.Entry
	for _, t := range ts {
		if !HasUnsync(t) {
			out = append(out, t)
		}
	}
	return out
}

// GenConfig parametrises the random tree generators.
type GenConfig struct {
	MaxDepth  int
	MaxFan    int
	Names     []string
	Digests   int // number of distinct content ids
	Targets   []string
	Unsync    bool // allow untracked / problematic entries
	Phantom   bool // allow phantom directories (below the root)
	ExecFiles bool // allow executable bits
}

// DefaultGen is the configuration used by the "mutate a common base" triples.
var DefaultGen = GenConfig{
	MaxDepth: 4, MaxFan: 4, Names: []string{"a", "b", "c", "d", "e"}, Digests: 3,
	Targets: []string{"t1", "t2"}, Unsync: true, ExecFiles: true,
}

// Leaf draws a leaf entry.
func (g GenConfig) Leaf(t *rapid.T, label string, unsync bool) *core.Entry {
	max := 3
	if unsync {
		max = 6
	}
	switch k := rapid.IntRange(0, max).Draw(t, label+".kind"); {
	case k <= 2:
		return F(byte(1+rapid.IntRange(0, g.Digests-1).Draw(t, label+".digest")), g.ExecFiles && rapid.IntRange(0, 3).Draw(t, label+".exec") == 0)
	case k == 3:
		return L(rapid.SampledFrom(g.Targets).Draw(t, label+".target"))
	case k <= 5:
		return U()
	default:
		return P(rapid.SampledFrom([]string{"p1", "p2"}).Draw(t, label+".problem"))
	}
}

// Tree draws a tree of at most the given depth (nil never; use rapid.Bool to
// decide absence outside).
func (g GenConfig) Tree(t *rapid.T, label string, depth int, unsync bool) *core.Entry {
	if depth <= 0 || rapid.IntRange(0, 9).Draw(t, label+".leaf?") < 4 {
		return g.Leaf(t, label, unsync)
	}
	n := rapid.IntRange(0, g.MaxFan).Draw(t, label+".fan")
	contents := map[string]*core.Entry{}
	for i := 0; i < n; i++ {
		name := rapid.SampledFrom(g.Names).Draw(t, label+".name")
		contents[name] = g.Tree(t, label+"/"+name, depth-1, unsync)
	}
	if g.Phantom && unsync && rapid.IntRange(0, 5).Draw(t, label+".phantom") == 0 {
		return PD(contents)
	}
	return D(contents)
}

// Mutate derives a variant of base by a random edit script. With unsync set,
// edits may introduce untracked / problematic content.
func (g GenConfig) Mutate(t *rapid.T, label string, base *core.Entry, unsync bool) *core.Entry {
	edits := rapid.IntRange(0, 4).Draw(t, label+".edits")
	cur := base
	for i := 0; i < edits; i++ {
		cur = g.mutateOnce(t, label, cur, unsync, g.MaxDepth)
	}
	return cur
}

func (g GenConfig) mutateOnce(t *rapid.T, label string, e *core.Entry, unsync bool, depth int) *core.Entry {
	// Choose where: at this node or inside a child.
	if e != nil && (e.Kind == KDir || e.Kind == KPhantom) && depth > 0 && rapid.IntRange(0, 9).Draw(t, label+".descend") < 7 {
		name := rapid.SampledFrom(g.Names).Draw(t, label+".child")
		child := e.Contents[name]
		nc := g.mutateOnce(t, label, child, unsync, depth-1)
		r := &core.Entry{Kind: e.Kind, Contents: map[string]*core.Entry{}}
		for n, c := range e.Contents {
			r.Contents[n] = c
		}
		if nc == nil {
			delete(r.Contents, name)
		} else {
			r.Contents[name] = nc
		}
		if len(r.Contents) == 0 {
			r.Contents = nil
		}
		return r
	}
	switch op := rapid.IntRange(0, 5).Draw(t, label+".op"); op {
	case 0: // delete
		return nil
	case 1: // replace by a fresh tree
		return g.Tree(t, label+".new", min(depth, 2), unsync)
	case 2: // edit content / toggle exec
		if e != nil && e.Kind == KFile {
			if rapid.Bool().Draw(t, label+".chmod") && g.ExecFiles {
				return &core.Entry{Kind: KFile, Digest: e.Digest, Executable: !e.Executable}
			}
			return F(byte(1+rapid.IntRange(0, g.Digests-1).Draw(t, label+".digest")), e.Executable)
		}
		if e != nil && e.Kind == KLink {
			return L(rapid.SampledFrom(g.Targets).Draw(t, label+".target"))
		}
		return g.Leaf(t, label+".leaf", unsync)
	case 3: // replace kind
		return g.Leaf(t, label+".leaf", unsync)
	case 4: // empty directory
		return D(nil)
	default:
		if unsync {
			if rapid.Bool().Draw(t, label+".u/p") {
				return U()
			}
			return P("p1")
		}
		return g.Leaf(t, label+".leaf", false)
	}
}

// Triple draws an (ancestor, alpha, beta) triple by mutating a common base.
// The ancestor contains only synchronizable content.
func (g GenConfig) Triple(t *rapid.T) (anc, alpha, beta *core.Entry) {
	var base *core.Entry
	if rapid.IntRange(0, 9).Draw(t, "base.nil?") > 0 {
		base = g.Tree(t, "base", g.MaxDepth, false)
		// Bias towards directory roots.
		if base.Kind != KDir && rapid.IntRange(0, 3).Draw(t, "base.wrap") > 0 {
			base = D(map[string]*core.Entry{rapid.SampledFrom(g.Names).Draw(t, "base.wrapname"): base})
		}
	}
	anc = base
	if rapid.IntRange(0, 4).Draw(t, "anc.mutate") == 0 {
		anc = g.Mutate(t, "anc", base, false)
	}
	if rapid.IntRange(0, 9).Draw(t, "anc.nil?") == 0 {
		anc = nil
	}
	alpha = g.Mutate(t, "alpha", base, g.Unsync)
	beta = g.Mutate(t, "beta", base, g.Unsync)
	return
}
