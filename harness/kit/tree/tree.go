// Package tree holds entry-tree generators and an independent tree algebra.
//
// Nothing in this file calls into mutagen's core package except to read and
// construct core.Entry / core.Change values: the oracles built on it must not
// share code with the functions they judge.
package tree

import (
	"bytes"
	"sort"
	"strings"

	"github.com/mutagen-io/mutagen/pkg/synchronization/core"
)

// Kind aliases.
const (
	KDir     = core.EntryKind_Directory
	KFile    = core.EntryKind_File
	KLink    = core.EntryKind_SymbolicLink
	KUntr    = core.EntryKind_Untracked
	KProb    = core.EntryKind_Problematic
	KPhantom = core.EntryKind_PhantomDirectory
)

// Digest returns the 20-byte digest used for symbolic content id.
func Digest(id byte) []byte {
	return bytes.Repeat([]byte{id}, 20)
}

// F, L, U, P, D, PD construct entries.
func F(id byte, exec bool) *core.Entry {
	return &core.Entry{Kind: KFile, Digest: Digest(id), Executable: exec}
}
func L(target string) *core.Entry { return &core.Entry{Kind: KLink, Target: target} }
func U() *core.Entry               { return &core.Entry{Kind: KUntr} }
func P(msg string) *core.Entry     { return &core.Entry{Kind: KProb, Problem: msg} }
func D(contents map[string]*core.Entry) *core.Entry {
	if len(contents) == 0 {
		contents = nil
	}
	return &core.Entry{Kind: KDir, Contents: contents}
}
func PD(contents map[string]*core.Entry) *core.Entry {
	if len(contents) == 0 {
		contents = nil
	}
	return &core.Entry{Kind: KPhantom, Contents: contents}
}

// IsSyncKind tells whether k is a synchronizable kind.
func IsSyncKind(k core.EntryKind) bool { return k == KDir || k == KFile || k == KLink }

// Names returns the sorted child names of e.
func Names(e *core.Entry) []string {
	if e == nil || len(e.Contents) == 0 {
		return nil
	}
	names := make([]string, 0, len(e.Contents))
	for n := range e.Contents {
		names = append(names, n)
	}
	sort.Strings(names)
	return names
}

// Render gives the canonical text form of a tree (child names sorted).
func Render(e *core.Entry) string {
	var b strings.Builder
	render(&b, e)
	return b.String()
}

func render(b *strings.Builder, e *core.Entry) {
	if e == nil {
		b.WriteByte('-')
		return
	}
	switch e.Kind {
	case KDir:
		b.WriteByte('D')
	case KFile:
		b.WriteByte('F')
	case KLink:
		b.WriteByte('L')
	case KUntr:
		b.WriteByte('U')
	case KProb:
		b.WriteByte('P')
	case KPhantom:
		b.WriteString("PD")
	default:
		b.WriteString("?")
	}
	if e.Digest != nil || e.Executable || e.Target != "" || e.Problem != "" {
		b.WriteByte('(')
		if e.Digest != nil {
			if len(e.Digest) > 0 && bytes.Equal(e.Digest, bytes.Repeat(e.Digest[:1], len(e.Digest))) && len(e.Digest) == 20 {
				b.WriteString("d")
				b.WriteString(hex2(e.Digest[0]))
			} else {
				b.WriteString("x")
				for _, c := range e.Digest {
					b.WriteString(hex2(c))
				}
			}
		}
		if e.Executable {
			b.WriteString(",x")
		}
		if e.Target != "" {
			b.WriteString(">")
			b.WriteString(e.Target)
		}
		if e.Problem != "" {
			b.WriteString("!")
			b.WriteString(e.Problem)
		}
		b.WriteByte(')')
	}
	if e.Contents != nil && len(e.Contents) == 0 {
		// An allocated but empty map is semantically the same as nil.
	}
	if len(e.Contents) > 0 {
		b.WriteByte('{')
		for i, n := range Names(e) {
			if i > 0 {
				b.WriteByte(' ')
			}
			b.WriteString(n)
			b.WriteByte(':')
			render(b, e.Contents[n])
		}
		b.WriteByte('}')
	}
}

func hex2(c byte) string {
	const h = "0123456789abcdef"
	return string([]byte{h[c>>4], h[c&15]})
}

// ShallowEqual compares the properties of two entries, ignoring contents.
func ShallowEqual(a, b *core.Entry) bool {
	if a == nil || b == nil {
		return a == nil && b == nil
	}
	return a.Kind == b.Kind && a.Executable == b.Executable &&
		bytes.Equal(a.Digest, b.Digest) && a.Target == b.Target && a.Problem == b.Problem
}

// DeepEqual compares two trees.
func DeepEqual(a, b *core.Entry) bool {
	if !ShallowEqual(a, b) {
		return false
	}
	if a == nil {
		return true
	}
	if len(a.Contents) != len(b.Contents) {
		return false
	}
	for n, ca := range a.Contents {
		cb, ok := b.Contents[n]
		if !ok || !DeepEqual(ca, cb) {
			return false
		}
	}
	return true
}

// Split splits a root-relative path into components ("" is the root).
func Split(path string) []string {
	if path == "" {
		return nil
	}
	return strings.Split(path, "/")
}

// Join joins a parent path and a name.
func Join(parent, name string) string {
	if parent == "" {
		return name
	}
	return parent + "/" + name
}

// At returns the entry at path inside tree (nil when absent).
func At(tree *core.Entry, path string) *core.Entry {
	e := tree
	for _, c := range Split(path) {
		if e == nil {
			return nil
		}
		e = e.Contents[c]
	}
	return e
}

// IsPrefix tells whether p is a component-wise prefix of q (p == q counts).
func IsPrefix(p, q string) bool {
	if p == "" {
		return true
	}
	return q == p || strings.HasPrefix(q, p+"/")
}

// Sync returns the synchronizable part of a tree: untracked, problematic and
// phantom sub-trees are dropped.
func Sync(e *core.Entry) *core.Entry {
	if e == nil || !IsSyncKind(e.Kind) {
		return nil
	}
	r := &core.Entry{Kind: e.Kind, Executable: e.Executable, Digest: e.Digest, Target: e.Target}
	for n, c := range e.Contents {
		if s := Sync(c); s != nil {
			if r.Contents == nil {
				r.Contents = make(map[string]*core.Entry)
			}
			r.Contents[n] = s
		}
	}
	return r
}

// HasUnsync tells whether the tree contains an unsynchronizable entry.
func HasUnsync(e *core.Entry) bool {
	if e == nil {
		return false
	}
	if !IsSyncKind(e.Kind) {
		return true
	}
	for _, c := range e.Contents {
		if HasUnsync(c) {
			return true
		}
	}
	return false
}

// CountSync counts synchronizable entries the way the statement of C07 puts
// it: entries of synchronizable kind that are not inside an unsynchronizable
// sub-tree.
func CountSync(e *core.Entry) uint64 {
	if e == nil || !IsSyncKind(e.Kind) {
		return 0
	}
	n := uint64(1)
	for _, c := range e.Contents {
		n += CountSync(c)
	}
	return n
}

// PathEntry is one (path, entry) pair of a tree walk.
type PathEntry struct {
	Path  string
	Entry *core.Entry
}

// Walk lists every (path, entry) of a tree in depth-first sorted order.
func Walk(e *core.Entry) []PathEntry {
	var out []PathEntry
	walk("", e, &out)
	return out
}

func walk(path string, e *core.Entry, out *[]PathEntry) {
	if e == nil {
		return
	}
	*out = append(*out, PathEntry{path, e})
	for _, n := range Names(e) {
		walk(Join(path, n), e.Contents[n], out)
	}
}

// SubsetOf tells whether x can be obtained from a by deletions only.
func SubsetOf(x, a *core.Entry) bool {
	if x == nil {
		return true
	}
	if a == nil || !ShallowEqual(x, a) {
		return false
	}
	for n, cx := range x.Contents {
		if !SubsetOf(cx, a.Contents[n]) {
			return false
		}
	}
	return true
}

// Destroyed lists the entries of old (rooted at path) that are not present,
// shallow-identical, at the same path in new: what replacing old by new
// removes or overwrites.
func Destroyed(path string, old, new *core.Entry) []PathEntry {
	var out []PathEntry
	destroyed(path, old, new, &out)
	return out
}

func destroyed(path string, old, new *core.Entry, out *[]PathEntry) {
	if old == nil {
		return
	}
	if !ShallowEqual(old, new) {
		// Everything at and below is gone.
		walk(path, old, out)
		return
	}
	for _, n := range Names(old) {
		var cn *core.Entry
		if new != nil {
			cn = new.Contents[n]
		}
		destroyed(Join(path, n), old.Contents[n], cn, out)
	}
}

// FirstDisagreements performs the joint walk of alpha and beta the statement
// of C06 refers to: it descends while both sides agree shallowly, stops (and
// reports nothing) where a side is problematic or both sides are absent or
// untracked, and reports the first path of every disagreement.
func FirstDisagreements(alpha, beta *core.Entry) []string {
	var out []string
	firstDisagreements("", alpha, beta, &out)
	return out
}

func firstDisagreements(path string, a, b *core.Entry, out *[]string) {
	if (a != nil && a.Kind == KProb) || (b != nil && b.Kind == KProb) {
		return
	}
	an := a == nil || a.Kind == KUntr
	bn := b == nil || b.Kind == KUntr
	if an && bn {
		return
	}
	if !ShallowEqual(a, b) {
		*out = append(*out, path)
		return
	}
	seen := map[string]bool{}
	for _, n := range append(Names(a), Names(b)...) {
		if seen[n] {
			continue
		}
		seen[n] = true
		firstDisagreements(Join(path, n), a.Contents[n], b.Contents[n], out)
	}
}

// Clone deep-copies a tree.
func Clone(e *core.Entry) *core.Entry {
	if e == nil {
		return nil
	}
	r := &core.Entry{Kind: e.Kind, Executable: e.Executable, Target: e.Target, Problem: e.Problem}
	if e.Digest != nil {
		r.Digest = append([]byte{}, e.Digest...)
	}
	if len(e.Contents) > 0 {
		r.Contents = make(map[string]*core.Entry, len(e.Contents))
		for n, c := range e.Contents {
			r.Contents[n] = Clone(c)
		}
	}
	return r
}

// ApplyModel returns tree with the entry at path replaced by new (nil deletes).
// It copies along the path and shares everything else. ok is false when a
// parent of path does not exist or is not a directory-like entry.
func ApplyModel(tree *core.Entry, path string, new *core.Entry) (*core.Entry, bool) {
	comps := Split(path)
	return applyModel(tree, comps, new)
}

func applyModel(tree *core.Entry, comps []string, new *core.Entry) (*core.Entry, bool) {
	if len(comps) == 0 {
		return new, true
	}
	if tree == nil || (tree.Kind != KDir && tree.Kind != KPhantom) {
		return nil, false
	}
	r := &core.Entry{Kind: tree.Kind}
	r.Contents = make(map[string]*core.Entry, len(tree.Contents)+1)
	for n, c := range tree.Contents {
		r.Contents[n] = c
	}
	child, ok := applyModel(tree.Contents[comps[0]], comps[1:], new)
	if !ok {
		return nil, false
	}
	if child == nil {
		delete(r.Contents, comps[0])
	} else {
		r.Contents[comps[0]] = child
	}
	if len(r.Contents) == 0 {
		r.Contents = nil
	}
	return r, true
}

// DfsLess orders paths the way a depth-first traversal with sorted names
// visits them: component-wise comparison, a prefix sorts before its
// extensions.
func DfsLess(p, q string) bool {
	pc, qc := Split(p), Split(q)
	for i := 0; i < len(pc) && i < len(qc); i++ {
		if pc[i] != qc[i] {
			return pc[i] < qc[i]
		}
	}
	return len(pc) < len(qc)
}

// RenderChange renders a change for samples and messages.
func RenderChange(c *core.Change) string {
	if c == nil {
		return "<nil change>"
	}
	return "{" + c.Path + ": " + Render(c.Old) + " => " + Render(c.New) + "}"
}

// RenderChanges renders a change list sorted by path.
func RenderChanges(cs []*core.Change) string {
	s := make([]string, len(cs))
	for i, c := range cs {
		s[i] = RenderChange(c)
	}
	sort.Strings(s)
	return "[" + strings.Join(s, " ") + "]"
}

// RenderConflicts renders a conflict list sorted by root.
func RenderConflicts(cs []*core.Conflict) string {
	s := make([]string, len(cs))
	for i, c := range cs {
		s[i] = "<" + c.Root + " a=" + RenderChanges(c.AlphaChanges) + " b=" + RenderChanges(c.BetaChanges) + ">"
	}
	sort.Strings(s)
	return "[" + strings.Join(s, " ") + "]"
}

// RenderChangesOrdered renders a change list in its own order.
func RenderChangesOrdered(cs []*core.Change) string {
	s := make([]string, len(cs))
	for i, c := range cs {
		s[i] = RenderChange(c)
	}
	return "[" + strings.Join(s, " ") + "]"
}
