#!/bin/bash
# Offline setup: warm the Go build cache for the harness (no network needed).
cd "$(dirname "$0")/harness" || exit 1
export GOFLAGS=-mod=mod GOPROXY=off GOTOOLCHAIN=auto CGO_ENABLED=0
unset GOSUMDB
go vet -tags verif ./kit/... >/dev/null 2>&1
go test -tags verif -count=1 -run '^$' ./... >/dev/null 2>&1 || true
exit 0
