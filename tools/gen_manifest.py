#!/usr/bin/env python3
"""Regenerates /verif/MANIFEST.json from checks_table.py (run after editing the table)."""
import json, os, sys
V = os.path.dirname(os.path.dirname(os.path.abspath(__file__)))
sys.path.insert(0, V)
from checks_table import CHECKS, NOT_APPLICABLE, HOOK_COMMITS
props = [json.loads(l)["id"] for l in open(os.path.join(V, "properties.jsonl"))]
checks = []
for pid in props:
    if pid not in CHECKS:
        continue
    c = CHECKS[pid]
    checks.append({
        "property_id": pid,
        "quick_cmd": "./check %s --tier quick" % pid,
        "thorough_cmd": "./check %s --tier thorough" % pid,
        "evidence_file": "/verif/evidence/%s.json" % pid,
        "replay_cmd_template": "./check %s --replay {path}" % pid,
        "engine": "harness",
        "level_claimed": {"category": c["level"], "text": c["text"], "design_ref": "DESIGN.md section 5, %s" % pid},
        "level_note": c["note"],
        "technique": c["technique"],
    })
na = [{"property_id": p, "reason": NOT_APPLICABLE.get(p, "no check built yet in this framework (planned in DESIGN.md section 5); not claimed")} for p in props if p not in CHECKS]
m = {
    "version": 1,
    "setup_cmd": "./setup.sh",
    "hooks": {
        "guard": "verif",
        "enable": "go build tag: checks compile /repo through the harness module (replace => /repo) with -tags verif",
        "baseline_off_cmd": "cd /repo && GOFLAGS=-mod=mod go test -vet=off -count=1 -timeout 25m ./...",
        "source_commits": HOOK_COMMITS,
        "add_only": True,
    },
    "engines": [{"name": "harness", "path": "/verif/harness", "serves_properties": [c["property_id"] for c in checks],
                 "kind_free_text": "Go test module (pgregory.net/rapid v1.3.0 property-based tests, exhaustive small-scope enumerators, fault enumeration via build-tag hooks, native go fuzzing in the thorough tier) driven by /verif/check"}],
    "checks": checks,
    "not_applicable": na,
    "notes": "All checks: ./check <ID> --tier quick|thorough [--replay FILE]; VERIF_SEED selects the rapid seed. Known and fixed findings: /verif/known_findings.json. See DESIGN.md.",
}
json.dump(m, open(os.path.join(V, "MANIFEST.json"), "w"), indent=1)
print("checks:", len(checks), "not_applicable:", len(na))
