# props: C01 C03
perl -0pi -e 's/(\} else if len\(αDiffNonDeletion\) == 0 \{\n.*?Old:  )α,/$1ancestor,/s' pkg/synchronization/core/reconcile.go
