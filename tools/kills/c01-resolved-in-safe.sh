# props: C01
perl -0pi -e 's/if r.mode == SynchronizationMode_SynchronizationModeTwoWaySafe \{\n\t\tr.conflicts/if r.mode == SynchronizationMode_SynchronizationModeTwoWaySafe \&\& len(αDiffNonDeletion) > 1 {\n\t\tr.conflicts/' pkg/synchronization/core/reconcile.go
