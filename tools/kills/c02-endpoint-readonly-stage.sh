# props: C02
perl -0pi -e 's/func \(e \*endpoint\) Stage\((.*?)if e.readOnly \{/func (e *endpoint) Stage($1if e.readOnly \&\& len(paths) > 2 {/s' pkg/synchronization/endpoint/local/endpoint.go
