# props: C02
perl -0pi -e 's/(func \(e \*endpoint\) Transition.*?)if e.readOnly \{/$1if e.readOnly \&\& len(transitions) > 1 {/s' pkg/synchronization/endpoint/local/endpoint.go
