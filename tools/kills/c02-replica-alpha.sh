# props: C02 C06
perl -0pi -e 's/(func \(r \*reconciler\) handleDisagreementOneWayReplica.*?\n\t\} else \{\n)/$1\t\tr.alphaChanges = append(r.alphaChanges, &Change{Path: path, Old: alpha, New: beta.synchronizable()})\n/s' pkg/synchronization/core/reconcile.go
