# props: C02
perl -0pi -e 's/βDiffNonDeletion := extractNonDeletionChanges\(diff\(path, ancestor, β\)\)\n\tif len\(βDiffNonDeletion\) == 0 \{/βDiffNonDeletion := extractNonDeletionChanges(diff(path, ancestor, β))\n\tif len(βDiffNonDeletion) == 0 || (β != nil \&\& β.Kind == EntryKind_SymbolicLink) {/' pkg/synchronization/core/reconcile.go
