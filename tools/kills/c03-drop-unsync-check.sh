# props: C03 C01
perl -0pi -e 's/if betaUnsynchronizable := diff\(path, β, beta\); len\(betaUnsynchronizable\) > 0 \{/if betaUnsynchronizable := diff(path, β, beta); len(betaUnsynchronizable) > 99 {/' pkg/synchronization/core/reconcile.go
