# props: C03 C06
perl -0pi -e 's/if alpha != nil && alpha.Kind == EntryKind_Problematic \{\n\t\treturn/if alpha != nil \&\& alpha.Kind == EntryKind_Problematic \&\& beta == nil {\n\t\treturn/' pkg/synchronization/core/reconcile.go
