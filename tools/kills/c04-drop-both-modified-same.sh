# props: C04
perl -0pi -e 's/if !ancestor.Equal\(alpha, false\) \{/if false \&\& !ancestor.Equal(alpha, false) {/' pkg/synchronization/core/reconcile.go
