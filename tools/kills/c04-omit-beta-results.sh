# props: C04 C01
perl -0pi -e 's/ancestorChanges = append\(ancestorChanges, βChanges...\)\n//' pkg/synchronization/controller.go
