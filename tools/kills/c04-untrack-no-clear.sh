# props: C04
perl -0pi -e 's/(if untrackBetaContent \{\n\t\tif ancestor != nil) \{/$1 \&\& false {/' pkg/synchronization/core/reconcile.go
