# props: C05
perl -0pi -e 's/ancestorChanges = append\(ancestorChanges, αChanges...\)\n\t\tancestorChanges = append\(ancestorChanges, βChanges...\)/ancestorChanges = append(append(append([]*core.Change{}, αChanges...), βChanges...), ancestorChanges...)/' pkg/synchronization/controller.go
