# props: C05
perl -0pi -e 's/if len\(ancestorChanges\) > 0 \{\n\t\t\t\/\/ Apply the changes to the ancestor./if len(ancestorChanges) > 0 \&\& αTransitionErr == nil \&\& βTransitionErr == nil {\n\t\t\t\/\/ Apply the changes to the ancestor./' pkg/synchronization/controller.go
