# props: C05 C03 C07
perl -0pi -e 's/func \(k EntryKind\) synchronizable\(\) bool \{\n\treturn k == EntryKind_Directory \|\|/func (k EntryKind) synchronizable() bool {\n\treturn k == EntryKind_Untracked || k == EntryKind_Directory ||/' pkg/synchronization/core/entry.go
