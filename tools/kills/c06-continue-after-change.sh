# props: C06 C04
perl -0pi -e 's/(r.betaChanges = append\(r.betaChanges, &Change\{\n\t\t\t\tPath: path,\n\t\t\t\tOld:  ancestor,\n\t\t\t\tNew:  α,\n\t\t\t\}\))/$1\n\t\t\tif α != nil \&\& len(α.Contents) > 0 { for n, c := range α.Contents { r.betaChanges = append(r.betaChanges, \&Change{Path: fastpath.Joinable(path) + n, New: c}); break } }/' pkg/synchronization/core/reconcile.go
