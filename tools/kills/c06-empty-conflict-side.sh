# props: C06
perl -0pi -e 's/AlphaChanges: αDiffNonDeletion,\n\t\t\tBetaChanges:  βDiffNonDeletion,/AlphaChanges: αDiffNonDeletion,\n\t\t\tBetaChanges:  nil,/' pkg/synchronization/core/reconcile.go
