# props: C07
perl -0pi -e 's/parent.Contents\[components\[0\]\] = change.New.Copy\(EntryCopyBehaviorDeepPreservingLeaves\)/parent.Contents[components[0]] = change.New/' pkg/synchronization/core/apply.go
