# props: C07
perl -0pi -e 's/result = change.New.Copy\(EntryCopyBehaviorDeepPreservingLeaves\)/result = change.New/' pkg/synchronization/core/apply.go
