# props: C07
perl -0pi -e 's/if !e.Kind.synchronizable\(\) \{\n\t\treturn 0\n\t\}\n\n\t\/\/ Count ourselves/if !e.Kind.synchronizable() \&\& e.Kind != EntryKind_Untracked {\n\t\treturn 0\n\t}\n\n\t\/\/ Count ourselves/' pkg/synchronization/core/entry.go
