# props: C07
perl -0pi -e 's/if child.Kind == EntryKind_Directory \|\| child.Kind == EntryKind_PhantomDirectory \{/if child.Kind == EntryKind_Directory {/' pkg/synchronization/core/entry.go
