# props: C07
perl -0pi -e 's/for name := range nameUnion\(baseContents, targetContents\) \{\n\t\td.diff/for name := range targetContents {\n\t\td.diff/' pkg/synchronization/core/diff.go
