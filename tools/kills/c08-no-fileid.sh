# props: C08
perl -0pi -e 's/metadata.Size == cached.Size &&\n\t\tmetadata.FileID == cached.FileID &&\n\t\tbytes.Equal/metadata.Size == cached.Size \&\&\n\t\tbytes.Equal/' pkg/synchronization/core/transition.go
