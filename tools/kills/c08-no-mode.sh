# props: C08
perl -0pi -e 's/match := metadata.Mode == filesystem.Mode\(cached.Mode\) &&\n\t\tmetadata.ModificationTime/match := (metadata.Mode\&filesystem.ModeTypeMask) == (filesystem.Mode(cached.Mode)\&filesystem.ModeTypeMask) \&\&\n\t\tmetadata.ModificationTime/' pkg/synchronization/core/transition.go
