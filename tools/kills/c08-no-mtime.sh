# props: C08
perl -0pi -e 's/\n\t\tmetadata.ModificationTime.Equal\(cached.ModificationTime.AsTime\(\)\) &&\n\t\tmetadata.Size == cached.Size &&\n\t\tmetadata.FileID == cached.FileID &&\n\t\tbytes.Equal/\n\t\tmetadata.Size == cached.Size \&\&\n\t\tmetadata.FileID == cached.FileID \&\&\n\t\tbytes.Equal/' pkg/synchronization/core/transition.go
