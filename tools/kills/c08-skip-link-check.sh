# props: C08
perl -0pi -e 's/if target != expected.Target \{\n\t\treturn errors.New\("symbolic link target does not match expected"\)/if target != expected.Target \&\& len(target) < 3 {\n\t\treturn errors.New("symbolic link target does not match expected")/' pkg/synchronization/core/transition.go
