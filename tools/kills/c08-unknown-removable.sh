# props: C08
perl -0pi -e 's/unknownContentEncountered = true\n/unknownContentEncountered = false\n\t\t\tdirectory.RemoveFile(contentName)\n/' pkg/synchronization/core/transition.go
