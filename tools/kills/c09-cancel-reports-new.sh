# props: C09
perl -0pi -e 's/case <-cancelled:\n\t\t\tresults = append\(results, t.Old\)/case <-cancelled:\n\t\t\tresults = append(results, t.New)/' pkg/synchronization/core/transition.go
