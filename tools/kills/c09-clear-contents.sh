# props: C09
perl -0pi -e 's/if !cancelled && !contentRemovalFailed \{\n\t\texpected.Contents = nil/if !cancelled {\n\t\texpected.Contents = nil/' pkg/synchronization/core/transition.go
