# props: C09
perl -0pi -e 's/t.recordProblem\(path, fmt.Errorf\("unable to set directory permissions: %w", err\)\)\n\t\treturn created/t.recordProblem(path, fmt.Errorf("unable to set directory permissions: %w", err))\n\t\treturn nil/' pkg/synchronization/core/transition.go
