# props: C09
perl -0pi -e 's/if err := parent.SetPermissions\(temporaryName, t.defaultOwnership, mode\); err != nil \{\n\t\tparent.RemoveFile\(temporaryName\)/if err := parent.SetPermissions(temporaryName, t.defaultOwnership, mode); err != nil {/' pkg/synchronization/core/transition.go
