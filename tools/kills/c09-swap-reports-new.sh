# props: C09
perl -0pi -e 's/results = append\(results, t.Old\)\n\t\t\t\ttransitioner.recordProblem\(t.Path, fmt.Errorf\("unable to swap file: %w", err\)\)/results = append(results, t.New)\n\t\t\t\ttransitioner.recordProblem(t.Path, fmt.Errorf("unable to swap file: %w", err))/' pkg/synchronization/core/transition.go
