# props: C09
git revert --no-edit -n 77e1195 && git reset -q
