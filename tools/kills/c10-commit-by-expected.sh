# props: C10
perl -0pi -e 's/digest := s.hasher.Sum\(nil\)\n/digest := s.hasher.Sum(nil)\n\tif s.store.verifExpected != nil { digest = s.store.verifExpected }\n/' pkg/synchronization/endpoint/local/staging/store/store.go
perl -0pi -e 's/type Store struct \{/type Store struct {\n\tverifExpected []byte/' pkg/synchronization/endpoint/local/staging/store/store.go
perl -0pi -e 's/func \(s \*Store\) Contains\(path string, digest \[\]byte\) \(bool, error\) \{/func (s *Store) Contains(path string, digest []byte) (bool, error) {\n\ts.verifExpected = digest/' pkg/synchronization/endpoint/local/staging/store/store.go
