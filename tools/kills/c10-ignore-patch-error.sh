# props: C10
grep -n "Patch" pkg/synchronization/rsync/receive.go | head -3
perl -0pi -e 's/(if err := r.engine.Patch\([^\n]*\); err != nil \{\n)/$1\t\t\terr = nil\n/' pkg/synchronization/rsync/receive.go
git diff --stat
