# props: C10 C41
perl -0pi -e 's/success, _ := e.stager.Contains\(path, digest\)\n\treturn success/return true/' pkg/synchronization/endpoint/local/endpoint.go
