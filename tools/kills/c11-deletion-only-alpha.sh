# props: C11
perl -0pi -e 's/if containsRootDeletion\(αTransitions\) \|\| containsRootDeletion\(βTransitions\) \{/if containsRootDeletion(αTransitions) {/' pkg/synchronization/controller.go
