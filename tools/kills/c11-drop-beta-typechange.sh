# props: C11
perl -0pi -e 's/if containsRootTypeChange\(αTransitions\) \|\| containsRootTypeChange\(βTransitions\) \{/if containsRootTypeChange(αTransitions) {/' pkg/synchronization/controller.go
