# props: C11
perl -0pi -e 's/return \(alphaEmptied \|\| betaEmptied\) && !\(alphaEmptied && betaEmptied\)/return alphaEmptied \&\& !betaEmptied/' pkg/synchronization/safety.go
