# props: C11
perl -0pi -e 's/if len\(ancestor.Contents\) < 2 \{/if len(ancestor.Contents) < 3 {/' pkg/synchronization/safety.go
