# props: C11
perl -0pi -e 's/if err == errHaltedForSafety \{\n\t\t\t<-ctx.Done\(\)\n\t\t\treturn\n\t\t\}/if err == errHaltedForSafety \&\& false {\n\t\t\t<-ctx.Done()\n\t\t\treturn\n\t\t}/' pkg/synchronization/controller.go
