# props: C12
perl -0pi -e 's/if len\(target\) > maximumPortableSymbolicLinkTargetLength/if len(target) >= maximumPortableSymbolicLinkTargetLength/' pkg/synchronization/core/symbolic_link.go
