# props: C12
perl -0pi -e 's/entry = &Entry\{Kind: EntryKind_Untracked\}\n\t\t\t\} else if s.symbolicLinkMode == SymbolicLinkMode_SymbolicLinkModePOSIXRaw/entry = \&Entry{Kind: EntryKind_Untracked}\n\t\t\t\ts.symbolicLinks++\n\t\t\t} else if s.symbolicLinkMode == SymbolicLinkMode_SymbolicLinkModePOSIXRaw/' pkg/synchronization/core/scan.go
