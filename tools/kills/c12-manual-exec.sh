# props: C12
perl -0pi -e 's/if s.permissionsMode == PermissionsMode_PermissionsModePortable \{\n\t\texecutable =/if s.permissionsMode != PermissionsMode_PermissionsModeDefault {\n\t\texecutable =/' pkg/synchronization/core/scan.go
