# props: C12
perl -0pi -e 's/if strings.HasPrefix\(contentName, filesystem.TemporaryNamePrefix\) \{\n\t\t\tcontinue/if strings.HasPrefix(contentName, filesystem.TemporaryNamePrefix+"cross") {\n\t\t\tcontinue/' pkg/synchronization/core/scan.go
