# props: C12
perl -0pi -e 's/return mode&\(filesystem.ModePermissionUserExecute\|\n\t\tfilesystem.ModePermissionGroupExecute\|\n\t\tfilesystem.ModePermissionOthersExecute\) != 0/return mode\&(filesystem.ModePermissionUserExecute) != 0/' pkg/synchronization/core/permissions.go
