# props: C12
perl -0pi -e 's/s.files\+\+\n\ts.totalFileSize \+= metadata.Size/s.files++\n\tif metadata.Size < 40000 { s.totalFileSize += metadata.Size }/' pkg/synchronization/core/scan.go
