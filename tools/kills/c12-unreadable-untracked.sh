# props: C12
perl -0pi -e 's/return &Entry\{\n\t\t\t\t\tKind:    EntryKind_Problematic,\n\t\t\t\t\tProblem: fmt.Errorf\("unable to open file: %w", err\).Error\(\),\n\t\t\t\t\}, nil/return \&Entry{Kind: EntryKind_Untracked}, nil/' pkg/synchronization/core/scan.go
