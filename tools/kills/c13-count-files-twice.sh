# props: C13
perl -0pi -e 's/\} else if entry.Kind == EntryKind_SymbolicLink \{\n\t\t\t\t\t\ts.symbolicLinks\+\+/} else if entry.Kind == EntryKind_SymbolicLink {\n\t\t\t\t\t\ts.symbolicLinks += 2/' pkg/synchronization/core/scan.go
