# props: C13
perl -0pi -e 's/metadata.ModificationTime.Equal\(cached.ModificationTime.AsTime\(\)\) &&\n\t\tmetadata.Size == cached.Size &&\n\t\tmetadata.FileID/metadata.Size == cached.Size \&\&\n\t\tmetadata.FileID/' pkg/synchronization/core/scan.go
