# props: C13
perl -0pi -e 's/s.newCache.Entries\[path\] = oldCacheEntry\n\t\t\t\t\t\t\ts.totalFileSize \+= oldCacheEntry.Size/s.totalFileSize += oldCacheEntry.Size/' pkg/synchronization/core/scan.go
