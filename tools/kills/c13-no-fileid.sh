# props: C13
perl -0pi -e 's/metadata.Size == cached.Size &&\n\t\tmetadata.FileID == cached.FileID\n\tcacheEntryReusable/metadata.Size == cached.Size\n\tcacheEntryReusable/' pkg/synchronization/core/scan.go
