# props: C13
perl -0pi -e 's/dirtyPaths\[path\] = true\n\t\t\t\tif path == "" \{\n\t\t\t\t\tbreak\n\t\t\t\t\}\n\t\t\t\tpath = fastpath.Dir\(path\)/dirtyPaths[path] = true\n\t\t\t\tif path == "" {\n\t\t\t\t\tbreak\n\t\t\t\t}\n\t\t\t\tpath = ""/' pkg/synchronization/core/scan.go
