# props: C13
perl -0pi -e 's/cacheEntryReusable := cacheContentMatch &&\n\t\tmetadata.Mode == filesystem.Mode\(cached.Mode\)/cacheEntryReusable := cacheContentMatch/' pkg/synchronization/core/scan.go
