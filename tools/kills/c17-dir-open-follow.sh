# props: C17
perl -0pi -e 's/flags := unix.O_RDONLY \| unix.O_NOFOLLOW \| unix.O_CLOEXEC \| extraOpenFlags\n/flags := unix.O_RDONLY | unix.O_CLOEXEC | extraOpenFlags\n/' pkg/filesystem/directory_posix.go
