# props: C17
perl -0pi -e 's/func \(o \*Opener\) OpenFile\(path string\) \(io.ReadSeekCloser, \*Metadata, error\) \{/func (o *Opener) OpenFile(path string) (io.ReadSeekCloser, *Metadata, error) {\n\tif true {\n\t\treturn OpenFile(filepath.Join(o.root, path), false)\n\t}/' pkg/filesystem/open.go
grep -q '"path/filepath"' pkg/filesystem/open.go || perl -0pi -e 's/import \(/import (\n\t"path\/filepath"/' pkg/filesystem/open.go
