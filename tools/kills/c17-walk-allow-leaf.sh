# props: C17
perl -0pi -e 's/parent, _, err := filesystem.OpenDirectory\(t.root, false\)/parent, _, err := filesystem.OpenDirectory(filepath.Join(t.root, strings.Join(parentComponents, "\/")), true)\n\tparentComponents = nil/' pkg/synchronization/core/transition.go
