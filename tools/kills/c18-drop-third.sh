# props: C18
perl -0pi -e 's/propagateFromSource = source != nil && ancestor != nil &&/propagateFromSource = false \&\& source != nil \&\& ancestor != nil \&\&/' pkg/synchronization/core/executability.go
