# props: C18
perl -0pi -e 's/propagateFromAncestor := ancestor != nil && ancestor.Kind == EntryKind_File &&\n\t\t\tbytes.Equal\(ancestor.Digest, target.Digest\)/propagateFromAncestor := ancestor != nil \&\& ancestor.Kind == EntryKind_File/' pkg/synchronization/core/executability.go
