# props: C18
perl -0pi -e 's/if len\(sourceContents\) == 0 && len\(ancestorContents\) == 0 \{/if len(sourceContents) == 0 || len(ancestorContents) == 0 {/' pkg/synchronization/core/executability.go
