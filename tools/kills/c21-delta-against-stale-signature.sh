# props: C21
perl -0pi -e 's/baselineSignature := engine.BytesSignature\(baselineBytes, 0\)/baselineSignature := engine.BytesSignature(baselineBytes, 0)\n\tif len(baselineBytes) > 64 { baselineBytes = append([]byte{}, baselineBytes...); baselineBytes[40] ^= 1 }/' pkg/synchronization/endpoint/remote/client.go
