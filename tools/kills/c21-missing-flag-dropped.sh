# props: C21
perl -0pi -e 's/StagerMissingFiles: stagerMissingFiles,/StagerMissingFiles: stagerMissingFiles \&\& false,/' pkg/synchronization/endpoint/remote/server.go
