# props: C21
grep -n "len(response.Paths) == 0" pkg/synchronization/endpoint/remote/client.go | head -2
perl -0pi -e 's/responsePaths = nil\n\t\}/responsePaths = responsePaths[:len(responsePaths)-1]\n\t}/' pkg/synchronization/endpoint/remote/server.go
