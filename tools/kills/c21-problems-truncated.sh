# props: C21
perl -0pi -e 's/Problems:\s+problems,/Problems: problems[:len(problems)\/2],/' pkg/synchronization/endpoint/remote/server.go
git diff --stat | tail -1
