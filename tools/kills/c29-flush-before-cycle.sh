# props: C29
perl -0pi -e 's/case flushRequest = <-c.flushRequests:\n\t\t\t\tif cap\(flushRequest\) < 1 \{\n\t\t\t\t\tpanic\("unbuffered flush request"\)\n\t\t\t\t\}/case flushRequest = <-c.flushRequests:\n\t\t\t\tif cap(flushRequest) < 1 {\n\t\t\t\t\tpanic("unbuffered flush request")\n\t\t\t\t}\n\t\t\t\tflushRequest <- nil\n\t\t\t\tflushRequest = nil/' pkg/synchronization/controller.go
