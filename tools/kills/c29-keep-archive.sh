# props: C29
perl -0pi -e 's/archiveRemoveErr := os.Remove\(c.archivePath\)/var archiveRemoveErr error/' pkg/synchronization/controller.go
