# props: C29
perl -0pi -e 's/(func \(c \*controller\) halt.*?c.cancel\(\)\n\t\t)<-c.done/$1time.Sleep(0)/s' pkg/synchronization/controller.go
