# props: C29
perl -0pi -e 's/c.session.Paused = true\n/c.session.Paused = false\n/' pkg/synchronization/controller.go
