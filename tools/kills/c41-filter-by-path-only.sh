# props: C41 C10
perl -0pi -e 's/target, _ := s.target\(path, digest\)\n\n\tif metadata, err := os.Lstat\(target\)/target, _ := s.target(path, digest)\n\tif m, _ := filepath.Glob(filepath.Join(s.root, "*", "*"+filepath.Base(target)[len(filepath.Base(target))-32:])); len(m) > 0 { return true, nil }\n\tif metadata, err := os.Lstat(target)/' pkg/synchronization/endpoint/local/staging/store/store.go
