# props: C41
perl -0pi -e 's/e.scannedSinceLastStageCall = false/e.scannedSinceLastTransitionCall = false/' pkg/synchronization/endpoint/local/endpoint.go
