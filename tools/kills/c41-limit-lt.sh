# props: C41
perl -0pi -e 's/\(e.maximumEntryCount-e.lastScanEntryCount\) < uint64\(len\(paths\)\)/(e.maximumEntryCount-e.lastScanEntryCount)+1 < uint64(len(paths))/' pkg/synchronization/endpoint/local/endpoint.go
