# props: C41
perl -0pi -e 's/if e.maximumEntryCount < resultingEntryCount \{/if e.maximumEntryCount+1 < resultingEntryCount {/' pkg/synchronization/endpoint/local/endpoint.go
