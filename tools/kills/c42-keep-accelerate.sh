# props: C42
perl -0pi -e 's/if e.watchMode == reifiedWatchModePoll \{\n\t\t\te.accelerate = false/if e.watchMode == reifiedWatchModePoll {\n\t\t\te.accelerate = true/' pkg/synchronization/endpoint/local/endpoint.go
