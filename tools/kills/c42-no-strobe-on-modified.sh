# props: C42
perl -0pi -e 's/if modified && !ignoreModifications \{/if modified \&\& !ignoreModifications \&\& snapshot.Content.Count() > 4 {/' pkg/synchronization/endpoint/local/endpoint.go
