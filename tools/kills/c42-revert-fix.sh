# props: C42
git revert --no-edit -n $(git log --format=%h --grep "compare polling scans" -1) && git reset -q
