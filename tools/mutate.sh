#!/bin/bash
# Sensitivity experiment: tools/mutate.sh <patch-file | -e 'sed-expr' file> -- <prop>...
# Applies a change to a scratch worktree of /repo (never /repo itself), runs the
# given checks against it and removes the worktree. Prints DETECTED/MISSED per property.
set -u
PATCH="$1"; shift
[ "$1" = "--" ] && shift
W=$(mktemp -d /tmp/mut-XXXXXX)
git -C /repo worktree add --detach -f "$W" HEAD >/dev/null 2>&1 || { echo "worktree failed"; exit 2; }
trap 'git -C /repo worktree remove --force "$W" >/dev/null 2>&1; rm -rf "$W"' EXIT
if [ -f "$PATCH" ]; then
  if ! git -C "$W" apply "$PATCH"; then echo "PATCH DOES NOT APPLY: $PATCH"; exit 2; fi
else
  ( cd "$W" && bash -c "$PATCH" ) || { echo "MUTATION COMMAND FAILED"; exit 2; }
  PATCH="cmd"
fi
if git -C "$W" diff --quiet; then echo "MUTATION CHANGED NOTHING"; exit 2; fi
git -C "$W" diff | grep '^[-+][^-+]' | head -${SHOWDIFF:-6}
( cd "$W" && GOFLAGS=-mod=mod GOPROXY=off GOTOOLCHAIN=auto go build ./pkg/... ) || { echo "MUTANT DOES NOT BUILD"; exit 2; }
for P in "$@"; do
  OUT=$(VERIF_REPO="$W" VERIF_EVIDENCE_DIR="$W/.evidence" /verif/check "$P" ${TIER:+--tier $TIER} 2>&1); RC=$?
  if [ $RC -eq 1 ]; then echo "DETECTED $P by $(basename $PATCH)"; echo "$OUT" | grep -m3 -E "^VIOLATION" | cut -c1-300
  elif [ $RC -eq 0 ]; then echo "MISSED $P by $(basename $PATCH)"
  else echo "INCONCLUSIVE($RC) $P by $(basename $PATCH)"; echo "$OUT" | tail -15; fi
done
