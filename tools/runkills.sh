#!/bin/bash
# tools/runkills.sh <kills-file> [parallelism]: runs every sanity mutation of the file.
F="$1"; PAR="${2:-4}"
grep -v '^#' "$F" | grep -v '^\s*$' | while IFS='|' read -r id props cmd; do
  id=$(echo $id); 
  echo "$id|$props|$cmd"
done > /tmp/kills.$$.lst
cat /tmp/kills.$$.lst | xargs -P "$PAR" -d '\n' -I{} bash -c 'L="{}"; id="${L%%|*}"; rest="${L#*|}"; props="${rest%%|*}"; cmd="${rest#*|}"; out=$(SHOWDIFF=0 /verif/tools/mutate.sh "$cmd" -- $props 2>&1 | grep -E "^(DETECTED|MISSED|INCONCLUSIVE|MUTA|PATCH)"); echo "== $id: $(echo $out)"'
rm -f /tmp/kills.$$.lst
