#!/bin/bash
# tools/runkills.sh <glob-prefix> [parallelism]: runs the sanity mutations tools/kills/<prefix>*.sh
# (each file: first line "# props: C01 C02", rest = shell commands run inside a scratch worktree).
PFX="$1"; PAR="${2:-4}"
ls /verif/tools/kills/${PFX}*.sh | xargs -P "$PAR" -I{} bash -c 'f="{}"; id=$(basename "$f" .sh); props=$(head -1 "$f" | sed "s/^# props: //"); out=$(SHOWDIFF=0 /verif/tools/mutate.sh "bash $f" -- $props 2>&1 | grep -E "^(DETECTED|MISSED|INCONCLUSIVE|MUTA|PATCH)"); echo "== $id: $(echo $out)"'
