#!/bin/bash
# tools/seedcheck.sh <seed-dir> <prop> [more props...]
# <seed-dir> holds patch.diff, run.txt (demo command) and demo files (*_test.go or others,
# with their path relative to the repo root recorded in demo_paths.txt: "<file> <dest-relative-path>").
# Confirms, in scratch worktrees of /repo (never /repo itself):
#   1. the patch applies and the project builds;
#   2. the upstream tests of the changed packages give the same pass/fail set as without the patch;
#   3. the demonstration fails with the patch and passes without it;
# then runs the given checks against the patched tree and prints DETECTED/MISSED.
set -u
SD=$(realpath "$1"); shift
export GOFLAGS=-mod=mod GOPROXY=off GOTOOLCHAIN=auto
W=$(mktemp -d /tmp/seedchk-XXXXXX); C=$(mktemp -d /tmp/seedchk-clean-XXXXXX)
git -C /repo worktree add --detach -f "$W" HEAD >/dev/null 2>&1 || exit 2
git -C /repo worktree add --detach -f "$C" HEAD >/dev/null 2>&1 || exit 2
trap 'git -C /repo worktree remove --force "$W" >/dev/null 2>&1; git -C /repo worktree remove --force "$C" >/dev/null 2>&1; rm -rf "$W" "$C"' EXIT
git -C "$W" apply "$SD/patch.diff" || { echo "SEED: patch does not apply"; exit 2; }
PKGS=$(git -C "$W" diff --name-only | grep '\.go$' | xargs -n1 dirname | sort -u | sed 's|^|./|')
echo "SEED: changed packages: $PKGS"
( cd "$W" && go build ./... ) || { echo "SEED: does not build"; exit 2; }
testset() { ( cd "$1" && go test -count=1 -vet=off -json $PKGS 2>/dev/null | python3 -c '
import sys,json
res={}
for l in sys.stdin:
    try: e=json.loads(l)
    except Exception: continue
    if e.get("Test") and e.get("Action") in ("pass","fail"): res[e["Package"]+"::"+e["Test"]]=e["Action"]
for k in sorted(res): print(k,res[k])' ); }
testset "$C" > "$C/.tests.txt"; testset "$W" > "$W/.tests.txt"
if diff -q "$C/.tests.txt" "$W/.tests.txt" >/dev/null; then echo "SEED: upstream tests unchanged ($(grep -c pass "$W/.tests.txt") pass, $(grep -c fail "$W/.tests.txt") fail as at baseline)"; else echo "SEED: UPSTREAM TEST RESULTS DIFFER:"; diff "$C/.tests.txt" "$W/.tests.txt" | head; fi
# demonstration
while read -r f dest; do [ -n "$f" ] && { mkdir -p "$W/$(dirname $dest)" "$C/$(dirname $dest)"; cp "$SD/$f" "$W/$dest"; cp "$SD/$f" "$C/$dest"; }; done < "$SD/demo_paths.txt"
CMD=$(cat "$SD/run.txt")
( cd "$W" && timeout 600 bash -c "$CMD" ) > "$W/.demo.txt" 2>&1; RW=$?
( cd "$C" && timeout 600 bash -c "$CMD" ) > "$C/.demo.txt" 2>&1; RC=$?
echo "SEED: demo with patch exit=$RW, without patch exit=$RC"
[ $RW -ne 0 ] && [ $RC -eq 0 ] && echo "SEED: demonstration confirmed" || { echo "SEED: DEMONSTRATION NOT CONFIRMED"; tail -5 "$W/.demo.txt"; tail -5 "$C/.demo.txt"; }
# remove demo files before running the checks (they are not part of the change)
while read -r f dest; do [ -n "$f" ] && rm -f "$W/$dest"; done < "$SD/demo_paths.txt"
for P in "$@"; do
  OUT=$(VERIF_REPO="$W" VERIF_EVIDENCE_DIR="$W/.evidence" /verif/check "$P" ${TIER:+--tier $TIER} 2>&1); RC=$?
  if [ $RC -eq 1 ]; then echo "DETECTED $P"; echo "$OUT" | grep -m2 "^VIOLATION" | cut -c1-200
  elif [ $RC -eq 0 ]; then echo "MISSED $P"
  else echo "INCONCLUSIVE($RC) $P"; echo "$OUT" | tail -8; fi
done
