#!/usr/bin/env python3
"""tools/seedimport.py <CNN> : imports /tmp/seedwork/CNN-out into /verif/seeded/S-CNN/ in the normal form
(patch.diff, demo files flat, demo_paths.txt, run.txt without the cp prefix, meta.json)."""
import sys, os, re, shutil, json
pid=sys.argv[1]; src='/tmp/seedwork/%s-out'%pid; dst='/verif/seeded/S-%s'%pid
os.makedirs(dst,exist_ok=True)
shutil.copy(src+'/patch.diff',dst+'/patch.diff')
run=open(src+'/run.txt').read().strip()
paths=[]
# every "cp <abs> <rel>" prefix
parts=[p.strip() for p in run.split('&&')]
rest=[]
for p in parts:
    m=re.match(r'cp\s+(\S+)\s+(\S+)$',p)
    if m and m.group(1).startswith(src):
        f=m.group(1); d=m.group(2)
        if d.endswith('/'): d=d+os.path.basename(f)
        shutil.copy(f,dst+'/'+os.path.basename(f)); paths.append((os.path.basename(f),d))
    elif re.match(r'mkdir\s',p): pass
    else: rest.append(p)
open(dst+'/demo_paths.txt','w').write(''.join('%s %s\n'%x for x in paths))
open(dst+'/run.txt','w').write(' && '.join(rest)+'\n')
meta=json.load(open(src+'/meta.json'))
json.dump(meta,open(dst+'/meta.json','w'),indent=1)
print(dst, paths, ' && '.join(rest))
