#!/bin/bash
# tools/seedrecord.sh <S-dir> <props...>: runs seedcheck and records its outcome in the seed's meta.json and seedcheck.log
D="$1"; shift
/verif/tools/seedcheck.sh "$D" "$@" 2>&1 | grep -E "^(SEED|DETECTED|MISSED|INCONCLUSIVE|VIOLATION)" | sed 's|/verif/.work/[^ ]*|<scratch>|' > "$D/seedcheck.log"
python3 - "$D" "$@" <<'PY'
import json,sys,re
d=sys.argv[1]; props=sys.argv[2:]
m=json.load(open(d+'/meta.json')); log=open(d+'/seedcheck.log').read()
m['confirmed_by_main_session']={'builds_and_upstream_tests_unchanged': 'upstream tests unchanged' in log, 'demo_fails_with_change_passes_without': 'demonstration confirmed' in log,
  'command': 'tools/seedcheck.sh %s %s'%(d,' '.join(props))}
m['checks']={p:('DETECTED' if re.search(r'^DETECTED '+p+'$',log,re.M) else 'MISSED' if re.search(r'^MISSED '+p+'$',log,re.M) else 'INCONCLUSIVE') for p in props}
json.dump(m,open(d+'/meta.json','w'),indent=1)
print(d, m['confirmed_by_main_session']['demo_fails_with_change_passes_without'], m['checks'])
PY
