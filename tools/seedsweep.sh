#!/bin/bash
# tools/seedsweep.sh <seed-value>... : re-runs, at other VERIF_SEED values, every check that detected a
# recorded seeded change (seeded/S-*/meta.json "checks"), against that change applied in a scratch
# worktree; prints one line per (seed dir, property, VERIF_SEED). 4 in parallel.
cd /verif
for S in "$@"; do
  for D in seeded/S-*; do
    for P in $(python3 -c "import json,sys; m=json.load(open('$D/meta.json')); print(' '.join(k for k,v in m.get('checks',{}).items() if v=='DETECTED'))"); do
      echo "$S $D $P"
    done
  done
done | xargs -P 4 -L 1 bash -c 'R=$(VERIF_SEED=$0 SHOWDIFF=0 tools/mutate.sh /verif/$1/patch.diff -- $2 2>&1 | grep -E "^(DETECTED|MISSED|INCONCLUSIVE)" | head -1); echo "seed=$0 $1 $R"'
